"""Abstract state: frames, symbolic heap with lazily materialised pre-state H0, fact base, consistency under J."""
from .values import *

LINKS = ("parent", "previous_sibling", "next_sibling", "first_child", "last_child")
NODE = "crate::node::Node"
NODEID = "crate::id::NodeId"
STAMP = "crate::id::NodeStamp"
NODEDATA = "crate::node::NodeData"
ARENA = "crate::arena::Arena"


class Fork(Exception):
    """Raised when evaluation needs a decision.  options: list of (label, fn(state)) refinements of the *block-entry* state."""

    def __init__(self, options, why):
        super().__init__(why)
        self.options = options
        self.why = why


class Infeasible(Exception):
    pass


class Undecided(Exception):
    """The analysis cannot follow this construct: fail closed."""
    pass


class Panic(Exception):
    def __init__(self, kind, msg, span=None):
        super().__init__(msg)
        self.kind, self.msg, self.span = kind, msg, span


class NodeRec:
    __slots__ = ("id", "live0", "origin", "h0", "cur", "fresh", "invec", "generic")

    def __init__(self, id, live0, origin, fresh=False):
        self.id, self.live0, self.origin, self.fresh = id, live0, origin, fresh
        self.h0 = {}
        self.cur = {}
        self.invec = not fresh
        self.generic = None

    def copy(self):
        n = NodeRec(self.id, self.live0, self.origin, self.fresh)
        n.h0 = dict(self.h0)
        n.cur = dict(self.cur)
        n.invec = self.invec
        n.generic = self.generic
        return n


class Frame:
    __slots__ = ("uid", "fnkey", "locals", "bb", "dest", "target", "native", "span")

    def __init__(self, uid, fnkey, locals_, bb=0, dest=None, target=None, native=None, span=None):
        self.uid, self.fnkey, self.locals, self.bb = uid, fnkey, locals_, bb
        self.dest, self.target, self.native, self.span = dest, target, native, span

    def copy(self):
        return Frame(self.uid, self.fnkey, dict(self.locals), self.bb, self.dest, self.target, self.native, self.span)


class State:
    def __init__(self):
        self.frames = []
        self.nodes = {}
        self.arena_h0 = {}
        self.arena_cur = {}
        self.len0 = Lin(0, ("len0",), 1)
        self.len = self.len0
        self.bounds = {("len0",): (0, ISIZE_MAX)}
        self.anc = {}          # (a, b) -> bool : a is a proper ancestor of b in H0
        self.cmp = {}          # memoised undetermined comparisons: (key) -> bool
        self.decisions = []
        self.events = []
        self.trace = []
        self.counter = 0
        self.frame_counter = 0
        self.steps = 0
        self.qwrites = []      # quantified writes from loop summaries
        self.meta = {}
        self.vec_cleared = False
        self.drops = []

    def copy(self):
        s = State.__new__(State)
        s.frames = [f.copy() for f in self.frames]
        s.nodes = {k: v.copy() for k, v in self.nodes.items()}
        s.arena_h0 = dict(self.arena_h0)
        s.arena_cur = dict(self.arena_cur)
        s.len0, s.len = self.len0, self.len
        s.bounds = dict(self.bounds)
        s.anc = dict(self.anc)
        s.cmp = dict(self.cmp)
        s.decisions = list(self.decisions)
        s.events = list(self.events)
        s.trace = list(self.trace)
        s.counter = self.counter
        s.frame_counter = self.frame_counter
        s.steps = self.steps
        s.qwrites = list(self.qwrites)
        s.meta = dict(self.meta)
        s.vec_cleared = self.vec_cleared
        s.drops = list(self.drops)
        return s

    def new_temp(self, v):
        c = self.meta.get("tmpc", 0)
        self.meta["tmpc"] = c + 1
        temps = dict(self.meta.get("temps", {}))
        tid = "t%d" % c
        temps[tid] = v
        self.meta["temps"] = temps
        return ("temp", tid)

    # ---------------------------------------------------------------- individuals
    MAX_NODES = 64

    def new_node(self, live, origin, fresh=False):
        if len(self.nodes) >= self.MAX_NODES:
            raise Undecided("more than %d individuals on one path (unbounded unrolling?)" % self.MAX_NODES)
        nid = "n%d" % self.counter
        self.counter += 1
        r = NodeRec(nid, live, origin, fresh)
        self.nodes[nid] = r
        if not fresh:
            st = ("st", nid)
            self.bounds[st] = (0, I16_MAX) if live else (I16_MIN, -1)
            r.h0["stamp"] = VStruct(STAMP, (("0", VInt(Lin(0, st, 1), 16, True)),))
            if live:
                r.h0["data"] = VEnum(NODEDATA, "Data", (("0", VOpaque("payload", nid)),))
            self.bounds[("idx", nid)] = (0, ISIZE_MAX - 1)
        return nid

    def id_of(self, nid):
        """The *current* NodeId of a node that is live in H0 (index1 = idx+1, stamp = H0 stamp)."""
        r = self.nodes[nid]
        return VStruct(NODEID, (("index1", VNonZero(Lin(1, ("idx", nid), 1))), ("stamp", r.h0["stamp"] if not r.fresh else r.cur["stamp"])))

    def node_of_id(self, v):
        """Individual addressed by a NodeId value (by its index term)."""
        if isinstance(v, VStruct) and v.adt == NODEID:
            t = v.get("index1")
            if isinstance(t, VNonZero) and t.t.sym and t.t.k == 1:
                if t.t.sym[0] == "idx" and t.t.c == 1:
                    return t.t.sym[1]
                if t.t.sym[0] == "len0":
                    return self.meta.get("pushed", {}).get(t.t.c - 1)
            if isinstance(t, VNonZero) and t.t.is_const():
                return self.meta.get("pushed", {}).get(t.t.c - 1) if self.len0.is_const() else None
        return None

    # ---------------------------------------------------------------- H0 access
    def h0_link(self, nid, field):
        """'unk' | None | node id  — the pre-state link, without materialising."""
        r = self.nodes[nid]
        if r.fresh:
            return None
        if field not in r.h0:
            if not r.live0:
                return None          # J5: removed nodes are unlinked
            return "unk"
        v = r.h0[field]
        if isinstance(v, VEnum) and v.variant == "None":
            return None
        return self.node_of_id(v.get("0"))

    def set_h0_link(self, nid, field, target):
        r = self.nodes[nid]
        r.h0[field] = none() if target is None else some(self.id_of(target))

    def materialise_options(self, nid, field):
        """Refinements that fix H0[nid].field (a link)."""
        r = self.nodes[nid]
        opts = []
        if r.fresh:
            raise Undecided("materialise on fresh node")
        if not r.live0:
            def f_none(s, nid=nid, field=field):
                s.nodes[nid].h0[field] = none()
            return [("%s.%s=None(J5)" % (nid, field), f_none)]

        def mk_none(s):
            s.set_h0_link(nid, field, None)
        opts.append(("%s.%s=None" % (nid, field), mk_none))
        for k, kr in self.nodes.items():
            if k == nid or kr.fresh or not kr.live0:
                continue
            def mk_ex(s, k=k):
                s.set_h0_link(nid, field, k)
            opts.append(("%s.%s=%s" % (nid, field, k), mk_ex))

        def mk_fresh(s):
            k = s.new_node(True, "H0[%s].%s" % (nid, field))
            s.set_h0_link(nid, field, k)
        opts.append(("%s.%s=new" % (nid, field), mk_fresh))
        return opts

    # ---------------------------------------------------------------- consistency under J (pre-state)
    def propagate(self):
        """Close the materialised part of H0 under the direct implications of J2; raise Infeasible on conflict."""
        changed = True
        rounds = 0
        while changed:
            changed = False
            rounds += 1
            if rounds > 50:
                raise Undecided("propagation does not converge")
            for a, ra in list(self.nodes.items()):
                if ra.fresh or not ra.live0:
                    continue
                par = self.h0_link(a, "parent")
                prv = self.h0_link(a, "previous_sibling")
                nxt = self.h0_link(a, "next_sibling")
                fst = self.h0_link(a, "first_child")
                lst = self.h0_link(a, "last_child")
                for tgt in (par, prv, nxt, fst, lst):
                    if tgt not in ("unk", None):
                        if tgt == a:
                            raise Infeasible("self link")
                        if not self.nodes[tgt].live0:
                            raise Infeasible("J0: link to removed node")
                # J2a
                if nxt not in ("unk", None):
                    changed |= self._want(nxt, "previous_sibling", a)
                    if par != "unk":
                        changed |= self._want(nxt, "parent", par)
                if prv not in ("unk", None):
                    changed |= self._want(prv, "next_sibling", a)
                    if par != "unk":
                        changed |= self._want(prv, "parent", par)
                # J2c
                if fst not in ("unk", None):
                    changed |= self._want(fst, "parent", a)
                    changed |= self._want(fst, "previous_sibling", None)
                if lst not in ("unk", None):
                    changed |= self._want(lst, "parent", a)
                    changed |= self._want(lst, "next_sibling", None)
                # J2e
                if fst is None:
                    changed |= self._want(a, "last_child", None)
                if lst is None:
                    changed |= self._want(a, "first_child", None)
                if fst not in ("unk", None) and lst is None:
                    raise Infeasible("J2e")
                if lst not in ("unk", None) and fst is None:
                    raise Infeasible("J2e")
                # J2d
                if par not in ("unk", None):
                    if prv is None:
                        changed |= self._want(par, "first_child", a)
                    if nxt is None:
                        changed |= self._want(par, "last_child", a)
                    if self.h0_link(par, "first_child") is None or self.h0_link(par, "last_child") is None:
                        raise Infeasible("parent without children")
                    if prv not in ("unk", None) and self.h0_link(par, "first_child") == a:
                        raise Infeasible("first child with previous sibling")
                    if nxt not in ("unk", None) and self.h0_link(par, "last_child") == a:
                        raise Infeasible("last child with next sibling")
        self._check_complete_chains()
        self._check_acyclic()

    def _check_complete_chains(self):
        """J4 (from J2+J3 on a finite arena): the nodes naming p as parent are exactly the next-chain first(p)..last(p).
        When that chain is completely materialised, no other individual may name p as parent."""
        ids = [k for k, r in self.nodes.items() if not r.fresh and r.live0]
        for p in ids:
            for start_f, step_f in (("first_child", "next_sibling"), ("last_child", "previous_sibling")):
                c = self.h0_link(p, start_f)
                if c in ("unk", None):
                    continue
                chain = []
                guard = 0
                while c not in ("unk", None) and guard < 100:
                    chain.append(c)
                    c = self.h0_link(c, step_f)
                    guard += 1
                if c is None:
                    members = set(chain)
                    for k in ids:
                        if k not in members and self.h0_link(k, "parent") == p:
                            raise Infeasible("J4: %s names %s as parent but is not on its complete child chain" % (k, p))

    def _want(self, nid, field, target):
        """H0[nid].field must be `target` (None or node id).  Returns True if newly set."""
        cur = self.h0_link(nid, field)
        if cur == "unk":
            self.set_h0_link(nid, field, target)
            return True
        if cur != target:
            raise Infeasible("J2 conflict on %s.%s: %s vs %s" % (nid, field, cur, target))
        return False

    def _check_acyclic(self):
        ids = [k for k, r in self.nodes.items() if not r.fresh and r.live0]
        for fld in ("parent", "next_sibling"):
            for a in ids:
                seen = {a}
                c = self.h0_link(a, fld)
                while c not in ("unk", None):
                    if c in seen:
                        raise Infeasible("J3 cycle via " + fld)
                    seen.add(c)
                    c = self.h0_link(c, fld)
        # ancestor facts: incremental worklist closure (asymmetry, transitivity, agreement with materialised parent edges)
        for b in ids:
            pb = self.h0_link(b, "parent")
            if pb not in ("unk", None):
                self._anc_set(pb, b, True)
        if not self.anc:
            return
        seen = self.meta.get("anc_seen", {})
        work = []
        def childless(a):
            # J2 on a finite forest: a node with a descendant has a first and a last child
            return a in self.nodes and (self.h0_link(a, "first_child") is None or self.h0_link(a, "last_child") is None)
        for k, val in self.anc.items():
            pb = self.h0_link(k[1], "parent") if k[1] in self.nodes else "unk"
            if seen.get(k) != (val, pb, childless(k[0])):
                work.append(k)
        if not work:
            return
        seen = dict(seen)
        frm, to = {}, {}
        for (a, b2), v in self.anc.items():
            if v:
                frm.setdefault(a, set()).add(b2)
                to.setdefault(b2, set()).add(a)
        guard = 0
        while work:
            guard += 1
            if guard > 100000:
                raise Undecided("ancestor closure too large")
            a, b = work.pop()
            val = self.anc[(a, b)]
            if a not in self.nodes or b not in self.nodes:
                continue
            if a == b and val:
                raise Infeasible("anc reflexive")
            pb = self.h0_link(b, "parent")
            seen[(a, b)] = (val, pb, childless(a))
            new = []
            if val:
                if childless(a):
                    raise Infeasible("a proper ancestor without children")
                if self.anc.get((b, a)):
                    raise Infeasible("anc symmetric")
                if pb is None:
                    raise Infeasible("anc of a root")
                if pb != "unk" and pb != a:
                    new.append(((a, pb), True))
                for d in list(frm.get(b, ())):
                    new.append(((a, d), True))
                for c in list(to.get(a, ())):
                    new.append(((c, b), True))
            else:
                if pb not in ("unk", None):
                    if pb == a:
                        raise Infeasible("anc false but parent")
                    new.append(((a, pb), False))
            for (k, v) in new:
                if k[0] == k[1] and v:
                    raise Infeasible("anc reflexive")
                if self._anc_set(k[0], k[1], v):
                    if v:
                        frm.setdefault(k[0], set()).add(k[1])
                        to.setdefault(k[1], set()).add(k[0])
                    work.append(k)
        self.meta["anc_seen"] = seen

    def _anc_set(self, a, b, val):
        cur = self.anc.get((a, b))
        if cur is None:
            self.anc[(a, b)] = val
            return True
        if cur != val:
            raise Infeasible("anc conflict")
        return False

    def anc_query(self, a, b):
        """True / False / None(unknown): is a a proper ancestor of b in H0?"""
        if a == b:
            return False
        ra, rb = self.nodes[a], self.nodes[b]
        if ra.fresh or rb.fresh or not ra.live0 or not rb.live0:
            return False
        v = self.anc.get((a, b))
        if v is not None:
            return v
        # walk known parent chain of b
        c = self.h0_link(b, "parent")
        while c not in ("unk", None):
            if c == a:
                return True
            v = self.anc.get((a, c))
            if v is not None:
                return v
            c = self.h0_link(c, "parent")
        if c is None:
            return False
        if self.anc.get((b, a)):
            return False
        return None

    # ---------------------------------------------------------------- numeric facts
    def sym_bounds(self, sym):
        b = self.bounds.get(sym, (None, None))
        if sym == ("len0",) and b[0] is not None:
            # distinct individuals occupy distinct pre-existing slots: the vector is at least as long as the number of slots named so far
            m = sum(1 for r in self.nodes.values() if r.invec and not r.fresh)
            if m > b[0]:
                return (m, b[1])
        return b

    def term_bounds(self, t):
        if t.sym is None:
            return t.c, t.c
        if t.sym[0] == "sum":
            lo = hi = t.c
            for (s, k) in t.sym[1]:
                slo, shi = self.sym_bounds(s)
                if slo is None:
                    return None, None
                k2 = k * t.k
                lo += k2 * slo if k2 > 0 else k2 * shi
                hi += k2 * shi if k2 > 0 else k2 * slo
            return lo, hi
        lo, hi = self.sym_bounds(t.sym)
        if lo is None:
            return None, None
        a, b = t.k * lo + t.c, t.k * hi + t.c
        return (a, b) if a <= b else (b, a)
