"""Loop summaries (DESIGN 4.5 / 11.3): chain-walking loops are recognised from one symbolic probe iteration, never from source text.

At every arrival k >= 2 at a natural-loop head the frame's locals are searched for a *cursor leaf*: a value (possibly nested in an
iterator struct) that is `NodeId(g)` or `Some(NodeId(g))` where g is an unconstrained individual that was materialised as
`H0[prev].fld` and the same leaf held `prev` at the previous arrival - i.e. the loop is stepping along the link `fld` into unknown
territory.  One iteration is then probed on a scratch copy with `H0[g].fld := Some(g2)` (g2 fresh):
  * only the cursor leaf may change (to g2, or stay the lazy `H0[g].fld`), and the only effects may be writes to fields of g with
    loop-invariant values;
  * effects  -> quantified write over the chain (requires the chain to be the children of a known parent x, walked from first(x), with
    unchanged next links, and every named child behaving like the generic one);
  * then the walk is continued past the unnamed part: to each named node that may come later on the chain, to a fresh chain end, or
    to exhaustion - as a Fork whose options are explored separately.
"""
from .values import *
from .state import *


class QWrite:
    """Quantified write:  for all m with H0[m].<guard_field> == Some(guard_node):  m.<field> := value."""

    def __init__(self, seq, guard_field, guard_node, writes, origin):
        self.seq, self.guard_field, self.guard_node, self.writes, self.origin = seq, guard_field, guard_node, dict(writes), origin

    def guard(self, I, st, nid, force=True):
        n = st.nodes[nid]
        if n.fresh or not n.live0:
            return False
        g = st.h0_link(nid, self.guard_field)
        if g == "unk":
            if self.guard_field == "parent" and st.anc_query(self.guard_node, nid) is False:
                return False
            if not force:
                return None
            I.force(st, VLazy(nid, self.guard_field))
            g = st.h0_link(nid, self.guard_field)
        return g == self.guard_node

    def apply(self, I, st, nid, f):
        if f not in self.writes:
            return None
        if self.guard(I, st, nid):
            return self.writes[f]
        return None

    def __repr__(self):
        return "forall m: H0[m].%s == %s => %s (%s)" % (self.guard_field, self.guard_node, self.writes, self.origin)


def _mentions(v, nid):
    return ("'%s'" % nid) in repr(vkey(v))


def _leaves(st, v, path=(), depth=0):
    """(path, kind, node) for NodeId / Some(NodeId) leaves inside a local value (lazies that are already materialised are resolved)."""
    if isinstance(v, VLazy) and v.n in st.nodes and v.field in st.nodes[v.n].h0:
        v = st.nodes[v.n].h0[v.field]
    if isinstance(v, VStruct) and v.adt == NODEID:
        n = st.node_of_id(v)
        if n is not None:
            yield path, "id", n
        return
    if isinstance(v, VEnum) and v.adt == OPTION and v.variant == "Some":
        x = v.get("0")
        if isinstance(x, VStruct) and x.adt == NODEID:
            n = st.node_of_id(x)
            if n is not None:
                yield path, "opt", n
        return
    if depth < 3 and isinstance(v, VStruct):
        for name, x in v.fields:
            yield from _leaves(st, x, path + (("field", name),), depth + 1)


def _lazy_leaves(st, v, path=(), depth=0):
    if isinstance(v, VLazy):
        if v.n in st.nodes and v.field in LINKS and v.field not in st.nodes[v.n].h0 and st.nodes[v.n].live0 and not st.nodes[v.n].fresh:
            yield path, v
        return
    if depth < 3 and isinstance(v, VStruct) and v.adt != NODEID:
        for name, x in v.fields:
            yield from _lazy_leaves(st, x, path + (("field", name),), depth + 1)


def _get_leaf(I, st, fr, l, path):
    return I.navigate(st, fr.locals[l], path) if l in fr.locals else None


def _set_leaf(I, st, uid, l, path, val):
    for f in st.frames:
        if f.uid == uid:
            f.locals[l] = I.update(st, f.locals[l], path, val)


def at_loop_head(self, st, fr):
    visits = dict(st.meta.get("lh", {}))
    key = (fr.uid, fr.bb)
    visits[key] = visits.get(key, 0) + 1
    st.meta["lh"] = visits
    prev_all = dict(st.meta.get("lh_prev", {}))
    prev_locals = prev_all.get(key)
    prev_all[key] = dict(fr.locals)
    st.meta["lh_prev"] = prev_all
    if visits[key] == 1:
        first = dict(st.meta.get("lh_first", {}))
        first[key] = dict(fr.locals)
        st.meta["lh_first"] = first
        return
    if st.meta.get("in_probe") or prev_locals is None:
        return      # inside a probe
    # a cursor that is still the unmaterialised link of the previous cursor: decide it here, so that the fresh-successor case is
    # recognised at this head (iterators force their cursor inside `next`, not at the loop head)
    for l, v in list(fr.locals.items()):
        for (path, lz) in list(_lazy_leaves(st, v)):
            pv = prev_locals.get(l)
            try:
                pleaf = [n for (p2, k2, n) in _leaves(st, pv) if p2 == path] if pv is not None else []
            except Undecided:
                pleaf = []
            if pleaf == [lz.n]:
                self.force(st, lz)          # forks over the materialisations of H0[prev].fld
    for l, v in list(fr.locals.items()):
        for (path, kind, g) in list(_leaves(st, v)):
            gr = st.nodes[g]
            if gr.fresh or gr.cur or not gr.origin.startswith("H0[") or "]." not in gr.origin:
                continue
            prev, fld = gr.origin[3:].split("].", 1)
            if fld not in LINKS or fld in gr.h0 or prev not in st.nodes:
                continue
            pv = prev_locals.get(l)
            try:
                pleaf = [n for (p2, k2, n) in _leaves(st, pv) if p2 == path] if pv is not None else []
            except Undecided:
                pleaf = []
            if pleaf != [prev]:
                continue
            if summarise(self, st, fr, key, l, path, kind, g, fld, prev):
                return


def _pigeon(self, s, tag, like):
    """The value of an iteration counter at a generic loop head of a walk along an acyclic link (J3): the v nodes passed so far and the node under the cursor
    are v + 1 distinct slots of the arena, so v < len - like the index of a slot (pigeonhole; no slot is pushed during a walk).  `cmp` knows ('cnt', ..) < len0."""
    sym = ("cnt", tag)
    s.bounds[sym] = (0, ISIZE_MAX - 1)
    return VInt(Lin(0, sym, 1), like.bits, like.signed)


def probe(self, st, fr, l, path, kind, k, fld, with_succ=True, companions=(), lags=(), counters=()):
    """One iteration with the cursor leaf = k on a scratch copy.  Returns (scratch, events, successor individual or None) or None."""
    from .interp import LoopHeadReached
    sc = st.copy()
    g2 = None
    try:
        if with_succ and st.h0_link(k, fld) == "unk":
            g2 = sc.new_node(True, "probe successor")
            sc.set_h0_link(k, fld, g2)
            sc.propagate()
    except (Infeasible, Undecided):
        return None
    f2 = sc.frames[-1]
    idv = sc.id_of(k)
    f2.locals[l] = self.update(sc, f2.locals[l], path, idv if kind == "id" else some(idv))
    for c_ in companions:
        f2.locals[c_] = VRef(("node", k), (), False)
    for c_ in lags:
        f2.locals[c_] = VOpaque("lagging cursor")      # the iteration must not depend on the previously visited node (any use of it is undecided)
    cstart = {}
    for c_ in counters:
        f2.locals[c_] = _pigeon(self, sc, ("probe", c_), f2.locals[c_])
        cstart[c_] = f2.locals[c_]
    sc.meta["probe_counters"] = cstart
    sc.meta["stop_at"] = (f2.uid, f2.bb)
    sc.meta["stop_armed"] = False
    sc.meta["in_probe"] = True
    nev = len(sc.events)
    depth = len(sc.frames)
    try:
        guard = 0
        while True:
            guard += 1
            if guard > 400:
                return None
            t = self.run_block(sc)
            if t is not None or len(sc.frames) < depth:
                return None
    except LoopHeadReached:
        pass
    except (Fork, Panic, Undecided, Infeasible):
        return None
    if len(sc.frames) != depth:
        return None
    return sc, sc.events[nev:], g2


def _iteration_shape(self, st, fr, l, path, kind, k, fld, r, companions=(), lags=(), counters=()):
    """Check that a probed iteration only advanced the cursor along fld; return its writes {field: value} on k (or None)."""
    sc, events, g2 = r
    f2 = sc.frames[-1]
    try:
        nv = self.navigate(sc, f2.locals[l], path)
    except (Undecided, Fork, KeyError):
        return None
    ok = False
    if isinstance(nv, VLazy) and nv.n == k and nv.field == fld:
        ok = True
    else:
        succ = sc.h0_link(k, fld)
        for (p2, k2, n) in _leaves(sc, nv):
            if p2 == () and k2 == kind and n == succ and succ not in ("unk", None):
                ok = True
    if not ok:
        return None
    for k2 in set(fr.locals) | set(f2.locals):
        a, b = fr.locals.get(k2), f2.locals.get(k2)
        if k2 in companions:
            # a reference to the cursor's node that moves along with the cursor
            succ2 = sc.h0_link(k, fld)
            if isinstance(b, VRef) and not b.path and b.root == ("node", succ2):
                continue
            return None
        if k2 in counters:
            # an iteration counter: exactly one more than at the head
            c0 = sc.meta.get("probe_counters", {}).get(k2)
            if c0 is not None and isinstance(b, VInt) and self.add_terms(b.t, c0.t, -1) == Lin(1):
                continue
            return None
        if k2 in lags:
            # a NodeId that remembers the node visited last: after the iteration it names the cursor's node
            if isinstance(b, VStruct) and b.adt == NODEID and sc.node_of_id(b) == k:
                continue
            return None
        if k2 == l:
            # everything but the cursor leaf must be unchanged
            try:
                a2 = self.update(st, a, path, UNIT)
                b2 = self.update(sc, b, path, UNIT)
            except (Undecided, Fork):
                return None
            if vkey(a2) != vkey(b2):
                return None
            continue
        if a is None or b is None or vkey(a) != vkey(b):
            if _dead_scalar(self, sc, f2, k2, a) and _dead_scalar(self, sc, f2, k2, b):
                continue        # a scalar temporary (e.g. the pair of a checked addition) that is dead at the head and that nothing refers to
            return None
    writes = {}
    for e in events:
        if e[0] == "write" and e[1] == k:
            val = sc.nodes[k].cur[e[2]]
            if _mentions(val, k) or (g2 and _mentions(val, g2)):
                return None
            writes[e[2]] = val
        elif e[0] in ("write", "write-arena", "push", "clear", "drop-data"):
            return None
    if fld in writes or sc.len != st.len or len(sc.drops) != len(st.drops):
        return None
    return writes


def _dead_scalar(self, sc, f2, l2, v):
    """l2 holds a plain scalar (or a tuple of scalars), is not live at the loop head f2.bb and no local of the frame holds a reference into it."""
    from .ppmodels import live_in

    def scalar(x):
        return x is None or isinstance(x, (VInt, VBool)) or (isinstance(x, VTuple) and all(scalar(y) for y in x.items))
    if not scalar(v):
        return False
    try:
        if l2 in live_in(self, f2.fnkey)[f2.bb]:
            return False
    except (KeyError, IndexError):
        return False
    root = ("local", f2.uid, l2)

    def refers(x, d=0):
        if isinstance(x, VRef):
            return x.root == root
        if d > 4:
            return True
        if isinstance(x, VStruct):
            return any(refers(y, d + 1) for _, y in x.fields)
        if isinstance(x, VEnum):
            return any(refers(y, d + 1) for _, y in x.fields)
        if isinstance(x, VTuple):
            return any(refers(y, d + 1) for y in x.items)
        return False
    return not any(refers(x) for k3, x in f2.locals.items() if k3 != l2)


def summarise(self, st, fr, key, l, path, kind, g, fld, prev=None):
    companions = tuple(k2 for k2, v in fr.locals.items() if k2 != l and isinstance(v, VRef) and not v.path and v.root == ("node", g)) if kind == "id" else ()
    # lagging cursors: plain NodeId locals that name the node visited in the previous iteration and name the cursor's node after this one
    lags = ()
    counters = ()
    done = st.meta.get("lh", {}).get(key, 1) - 1          # iterations completed
    ccands = [k2 for k2, v in fr.locals.items() if k2 != l and isinstance(v, VInt) and v.t.is_const() and v.t.c == done and done >= 1]
    if ccands:
        r0 = probe(self, st, fr, l, path, kind, g, fld, companions=companions)
        if r0 is None:
            return False
        f0 = r0[0].frames[-1]
        counters = tuple(k2 for k2 in ccands if isinstance(f0.locals.get(k2), VInt) and f0.locals[k2].t == Lin(done + 1))
    if prev is not None and kind == "opt":
        cands = []
        for k2, v in fr.locals.items():
            if k2 != l and isinstance(v, VStruct) and v.adt == NODEID:
                try:
                    if st.node_of_id(v) == prev:
                        cands.append(k2)
                except (Undecided, Fork):
                    pass
        if cands:
            r0 = probe(self, st, fr, l, path, kind, g, fld, companions=companions, counters=counters)
            if r0 is None:
                return False
            f0 = r0[0].frames[-1]
            lags = tuple(k2 for k2 in cands if isinstance(f0.locals.get(k2), VStruct) and f0.locals[k2].adt == NODEID and r0[0].node_of_id(f0.locals[k2]) == g)
    r = probe(self, st, fr, l, path, kind, g, fld, companions=companions, lags=lags, counters=counters)
    if r is None:
        return False
    writes = _iteration_shape(self, st, fr, l, path, kind, g, fld, r, companions, lags, counters)
    if writes is None:
        return False
    if lags and not writes:
        return False        # a lagging cursor is summarised only for the walk over all children of a known parent (it ends at that parent's last child)
    first_locals = st.meta.get("lh_first", {}).get(key, {})
    try:
        starts = [n for (p2, k2, n) in _leaves(st, first_locals.get(l)) if p2 == path] if first_locals.get(l) is not None else []
    except Undecided:
        starts = []
    start = starts[0] if starts else None
    # nodes with a known fld-path into g were already passed (acyclic chains)
    before = set()
    for k in st.nodes:
        c, seen = k, set()
        while c not in ("unk", None) and c not in seen:
            seen.add(c)
            if c == g:
                before.add(k)
                break
            c = st.h0_link(c, fld) if (not st.nodes[c].fresh and st.nodes[c].live0) else None
    qw = None
    x = None
    if writes:
        # ---- effect loop: must be the walk over all children of a known parent
        if fld != "next_sibling":
            return False
        x = st.h0_link(g, "parent")
        if x in ("unk", None) or start is None:
            return False
        if st.h0_link(start, "previous_sibling") is not None or st.h0_link(start, "parent") != x:
            return False
        for k, kr in st.nodes.items():
            if kr.fresh or not kr.live0 or "next_sibling" not in kr.cur:
                continue
            pk = st.h0_link(k, "parent")
            if pk == x or (pk == "unk" and st.anc_query(x, k) is not False):
                hv = kr.h0.get("next_sibling")
                if hv is None or vkey(self.force(st, kr.cur["next_sibling"])) != vkey(hv):
                    return False
        for k, kr in list(st.nodes.items()):
            if k == g or kr.fresh or not kr.live0 or k in before:
                continue
            pk = st.h0_link(k, "parent")
            if pk == "unk":
                if st.anc_query(x, k) is False:
                    continue
                self.force(st, VLazy(k, "parent"))      # decide (forks)
                pk = st.h0_link(k, "parent")
            if pk != x:
                continue
            rk = probe(self, st, fr, l, path, kind, k, fld, companions=companions, lags=lags, counters=counters)
            wk = _iteration_shape(self, st, fr, l, path, kind, k, fld, rk, companions, lags, counters) if rk is not None else None
            if wk is None:
                # the named child may end the chain (exit inside the iteration): compare its effect without requiring a return to the head
                wk = _effect_only(self, st, fr, l, path, kind, k)
            if wk is None or set(wk) != set(writes) or any(vkey(wk[f]) != vkey(writes[f]) for f in writes):
                return False
        st.meta["wseq"] = st.meta.get("wseq", 0) + 1
        qw = QWrite(st.meta["wseq"], "parent", x, writes, "%s loop at bb%d over children of %s" % (fr.fnkey.split("::")[-1], fr.bb, x))
    luid = fr.uid
    fnkey = fr.fnkey
    lag_end = None
    if lags:
        if st.h0_link(x, "last_child") == "unk":
            self.force(st, VLazy(x, "last_child"))       # decide (forks): the walk over the children of x ends at x's last child (J2)
        lag_end = st.h0_link(x, "last_child")
        if lag_end in ("unk", None):
            return False

    hv = st.meta.get("lh", {}).get(key, 0)

    def common(s):
        for c_ in counters:
            for f_ in s.frames:
                if f_.uid == luid:
                    f_.locals[c_] = _pigeon(self, s, (luid, fr.bb, hv, c_), f_.locals[c_])
        if qw is not None:
            s.qwrites.append(qw)
            s.meta["wseq"] = max(s.meta.get("wseq", 0), qw.seq)
            s.events.append(("qwrite", x, tuple(sorted(writes)), fnkey))
        s.meta["summaries"] = s.meta.get("summaries", ()) + ((("cursor-loop" if writes else "chain-walk"), fnkey, fld, x if writes else start, tuple(sorted(writes))),)

    def compatible(s, k):
        if fld in ("next_sibling", "previous_sibling"):
            pg, pk = s.h0_link(g, "parent"), s.h0_link(k, "parent")
            if pg != "unk" and pk != "unk" and pg != pk:
                raise Infeasible("different chains")
            if pg != "unk" and pk == "unk":
                s.set_h0_link(k, "parent", pg)
        elif fld == "parent":
            s.anc[(k, g)] = True
        elif fld in ("first_child", "last_child"):
            s.anc[(g, k)] = True          # reached by walking down from g

    opts = []
    named = [k for k, kr in st.nodes.items() if k != g and k not in before and not kr.fresh and kr.live0]
    if not writes and kind == "id":
        # the cursor's final value matters (it is the result): the unnamed stretch may end at g itself or lead to any later named node
        for (label, fn) in st.materialise_options(g, fld):
            if not label.endswith("=new"):
                opts.append((label, fn))
    if not writes and kind == "opt":
        # a pure search: only named nodes on which an iteration behaves differently from the generic one (leaves the loop, writes, ...)
        # need to be visited; the others are passed over like the unnamed ones
        interesting = []
        for k in named:
            if fld == "parent" and st.anc_query(k, g) is False:
                continue
            rk = probe(self, st, fr, l, path, kind, k, fld, companions=companions, lags=lags, counters=counters)
            wk = _iteration_shape(self, st, fr, l, path, kind, k, fld, rk, companions, lags, counters) if rk is not None else None
            if wk is None or wk:
                interesting.append(k)
        named = interesting
    if kind == "opt" and (writes or True):
        # Option cursors are tested at the head: "exhausted" is the cursor None
        def exhaust(s):
            common(s)
            if fld == "parent" and not writes:
                for k in named:
                    if s.anc.get((k, g)) is None:
                        s.anc[(k, g)] = False
            _set_leaf(self, s, luid, l, path, none())
            for c_ in lags:
                for f_ in s.frames:
                    if f_.uid == luid:
                        f_.locals[c_] = s.id_of(lag_end)
        if writes:
            # every remaining chain member (named ones were verified) receives the effect; the walk ends
            opts.append(("summarise %s loop over children of %s" % (fnkey.split("::")[-1], x), exhaust))
        else:
            opts.append(("walk %s from %s: no named node further on" % (fld, g), exhaust))
    if not writes or kind == "id":
        for k in named:
            if fld == "parent" and st.anc_query(k, g) is False:
                continue
            if writes and st.h0_link(k, "parent") not in (x, "unk"):
                continue

            def jump(s, k=k):
                common(s)
                compatible(s, k)
                _set_leaf(self, s, luid, l, path, s.id_of(k) if kind == "id" else some(s.id_of(k)))
                for c_ in companions:
                    for f_ in s.frames:
                        if f_.uid == luid:
                            f_.locals[c_] = VRef(("node", k), (), False)
                s.meta["reach"] = tuple(s.meta.get("reach", ())) + ((fld, start, k), (fld, g, k))
            opts.append(("walk %s from %s on to %s" % (fld, g, k), jump))
    if kind == "id":
        def fresh_end(s):
            common(s)
            e = s.new_node(True, "end of the %s-chain of %s" % (fld, start))
            s.set_h0_link(e, fld, None)
            pg = s.h0_link(g, "parent")
            if fld in ("next_sibling", "previous_sibling") and pg != "unk":
                s.set_h0_link(e, "parent", pg)
            if fld == "parent":
                s.anc[(e, g)] = True
            if fld in ("first_child", "last_child"):
                s.anc[(g, e)] = True
            _set_leaf(self, s, luid, l, path, s.id_of(e))
            for c_ in companions:
                for f_ in s.frames:
                    if f_.uid == luid:
                        f_.locals[c_] = VRef(("node", e), (), False)
            s.meta["reach"] = tuple(s.meta.get("reach", ())) + ((fld, start, e), (fld, g, e))
        opts.append(("walk %s from %s to a fresh chain end" % (fld, g), fresh_end))
    raise Fork(opts, "chain walk along %s in %s" % (fld, fnkey))


def _effect_only(self, st, fr, l, path, kind, k):
    """Writes of one iteration on k when the iteration may leave the loop (last member): effects on k only, up to the loop exit or head."""
    from .interp import LoopHeadReached
    sc = st.copy()
    f2 = sc.frames[-1]
    idv = sc.id_of(k)
    f2.locals[l] = self.update(sc, f2.locals[l], path, idv if kind == "id" else some(idv))
    sc.meta["stop_at"] = (f2.uid, f2.bb)
    sc.meta["stop_armed"] = False
    sc.meta["in_probe"] = True
    nev = len(sc.events)
    depth = len(sc.frames)
    heads = self.loop_heads(f2.fnkey)
    try:
        guard = 0
        while True:
            guard += 1
            if guard > 400:
                return None
            t = self.run_block(sc)
            if t is not None or len(sc.frames) < depth:
                break
            # stop as soon as control leaves the loop body (a block that cannot reach the head again is outside)
            if len(sc.frames) == depth and not _can_reach(self, f2.fnkey, sc.frames[-1].bb, f2.bb if False else st.frames[-1].bb):
                break
    except LoopHeadReached:
        pass
    except (Fork, Panic, Undecided, Infeasible):
        return None
    writes = {}
    for e in sc.events[nev:]:
        if e[0] == "write" and e[1] == k:
            writes[e[2]] = sc.nodes[k].cur[e[2]]
        elif e[0] in ("write", "write-arena", "push", "clear", "drop-data"):
            return None
    return writes


def _can_reach(self, fnkey, a, head):
    cache = self.__dict__.setdefault("_reach_cache", {})
    if fnkey not in cache:
        from ..cfg import CFG
        cache[fnkey] = CFG(self.fns[fnkey]["mir"])
    cfg = cache[fnkey]
    return head in cfg.reachable_from(a)
