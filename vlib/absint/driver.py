"""E2 driver: initial states (argument validity cases V), exploration, terminal records."""
from .values import *
from .state import *
from .interp import Interp, Terminal


def arena_ref(mut=True):
    # the one arena of the call
    return VRef(("arena",), (), mut)


def arg_id(st, nid):
    """NodeId value a caller may hold for individual nid under V: the current id if live; for a removed, not yet recycled slot either the
    last id that was issued for it (stamp >= 0, differs from the slot's stamp) or - form "reported" - the id that get_node_id(&arena[..])
    reports for the removed slot (it carries the slot's current, negative stamp)."""
    r = st.nodes[nid]
    if r.live0:
        return st.id_of(nid)
    if st.meta.get("removed_id_form", {}).get(nid) == "reported":
        return VStruct(NODEID, (("index1", VNonZero(Lin(1, ("idx", nid), 1))), ("stamp", r.h0["stamp"])))
    sym = ("ast", nid)
    st.bounds[sym] = (0, I16_MAX)
    return VStruct(NODEID, (("index1", VNonZero(Lin(1, ("idx", nid), 1))),
                            ("stamp", VStruct(STAMP, (("0", VInt(Lin(0, sym, 1), 16, True)),)))))


def describe_value(v):
    return repr(v)


def heap_table(st):
    out = {}
    for k, r in sorted(st.nodes.items()):
        row = {"live0": r.live0, "fresh": r.fresh, "origin": r.origin}
        row["h0"] = {f: repr(v) for f, v in r.h0.items() if f in LINKS or f == "nextfree"}
        row["cur"] = {f: repr(v) for f, v in r.cur.items()}
        out[k] = row
    return out
