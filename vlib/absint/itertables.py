"""E2 entry 'iters': decision tables of the traversal iterators (C09) and the double-ended state machine (C10)."""
from .values import *
from .state import *
from . import driver, spec, models
from .e2run import _stage

TRV = "crate::traverse::"
EDGE = TRV + "NodeEdge"
ITER_T = "core::iter::traits::iterator::Iterator"
DEI_T = "core::iter::traits::double_ended::DoubleEndedIterator"


def build(I, ty, leaf, path=()):
    """Build a value of (local struct) type ty; `leaf(kind, path)` supplies Option<NodeId> / NodeId / Option<NodeEdge> / &Arena values."""
    t = ty
    if t["k"] == "ref":
        inner = I.prog.ty(t["ty"])
        if inner.get("path") == ARENA:
            return VRef(("arena",), (), False)
        raise Undecided("iterator field of reference type " + t["s"])
    if t["k"] == "adt":
        if t.get("path") == OPTION:
            a = I.prog.ty(t["args"][0])
            if a.get("path") == NODEID:
                return leaf("opt_id", path)
            if a.get("path") == EDGE:
                return leaf("opt_edge", path)
        if t.get("path") == NODEID:
            return leaf("id", path)
        if t.get("path") == EDGE:
            return leaf("edge", path)          # a plain NodeEdge: the closing edge of a traversal (another way of remembering the root)
        if t.get("local"):
            adt = I.prog.adts[t["path"]]
            fs = []
            for fd in adt["variants"][0]["fields"]:
                fs.append((fd["name"], build(I, I.prog.ty(fd["ty"]), leaf, path + (fd["name"],))))
            return VStruct(t["path"], fs)
    raise Undecided("cannot build a value of type " + t["s"])


def leaves(v, path=()):
    """[(path, value)] of the Option<NodeId>/NodeId/Option<NodeEdge> leaves of an iterator value."""
    out = []
    if isinstance(v, VStruct) and v.adt != NODEID:
        for n, x in v.fields:
            out += leaves(x, path + (n,))
    elif isinstance(v, VRef):
        pass
    else:
        out.append((path, v))
    return out


def dec(view, v):
    """Decode Option<NodeId> | NodeId | Option<NodeEdge> | NodeEdge into a comparable python value."""
    st = view.st
    if isinstance(v, VLazy):
        if v.n in st.nodes and v.field in st.nodes[v.n].h0:
            v = st.nodes[v.n].h0[v.field]
        else:
            return ("lazy", v.n, v.field)      # the unmaterialised pre-state link itself
    if isinstance(v, VStruct) and v.adt == NODEID:
        return st.node_of_id(v)
    if isinstance(v, VEnum) and v.adt == OPTION:
        if v.variant == "None":
            return None
        return ("Some", dec(view, v.get("0")))
    if isinstance(v, VEnum) and v.adt == EDGE:
        return (v.variant, st.node_of_id(v.get("0")))
    return ("?", repr(v))


def state_dict(view, rkey, v):
    """role -> decoded leaf; a root remembered as its closing edge decodes to the node, the edge kind goes to `root_edge`."""
    out = {}
    for p, val in leaves(v):
        k, d = rkey(p), dec(view, val)
        if k == "root" and isinstance(d, tuple) and len(d) == 2 and d[0] in ("Start", "End"):
            out["root_edge"] = d[0]
            d = d[1]
        out[k] = d
    return out


def closing_variant(I, newk):
    """Which edge a traversal that stores its root as a NodeEdge uses (read from what its constructor builds)."""
    cache = I.__dict__.setdefault("_closing_variant", {})
    if newk not in cache:
        st = State()
        x = st.new_node(True, "arg:node")
        vs = set()
        for (s1, k1, v1, m1) in run_fn(I, st, newk, lambda s: [driver.arena_ref(False), s.id_of(x)]):
            if k1 == "return":
                for p, val in leaves(v1):
                    if isinstance(val, VEnum) and val.adt == EDGE:
                        vs.add(val.variant)
        if len(vs) != 1:
            raise Undecided("closing edge of %s is not a single constant edge kind: %s" % (newk, sorted(vs)))
        cache[newk] = next(iter(vs))
    return cache[newk]


def iter_kinds(I):
    """(name, type dict, next key, next_back key or None, new key) for every local iterator type with an Iterator impl."""
    out = []
    for (tr, m, adt), key in sorted(I.impl_index.items()):
        if tr == ITER_T and m == "next" and adt.startswith(TRV):
            f = I.fns[key]
            ty = I.prog.ty(I.prog.ty(f["inputs"][0])["ty"])
            nb = I.impl_index.get((DEI_T, "next_back", adt))
            newk = [k for k in I.fns if k.endswith("::new") and k.startswith(adt + "<")]
            out.append((adt.split("::")[-1], ty, key, nb, newk[0] if newk else None))
    return out


def role_map(I, name, ty, nextk):
    """Leaf path -> role name, independent of the private field names: the NodeId leaf is `root`, the Option<NodeEdge> leaf `next`, a single
    Option<NodeId> leaf `node`; of two Option<NodeId> leaves the one whose value `next()` yields is `head`, the other `tail`."""
    kinds = {}
    build(I, ty, lambda k, p: kinds.setdefault(p, k) and none())
    roles = {}
    cursors = [p for p, k in kinds.items() if k == "opt_id"]
    for p, k in kinds.items():
        if k == "id":
            roles[p] = "root"
        elif k == "edge" and "id" not in kinds.values():
            roles[p] = "root"
        elif k == "opt_edge":
            roles[p] = "next"
    if len(cursors) == 1:
        roles[cursors[0]] = "node"
    elif len(cursors) == 2:
        roles[cursors[0]], roles[cursors[1]] = "head", "tail"
        # behavioural orientation: two distinct generic cursors, which one does next() yield?
        st = State()
        a, b = st.new_node(True, "first leaf"), st.new_node(True, "second leaf")
        order = iter((a, b))
        val = build(I, ty, lambda k, p: some(st.id_of(next(order))) if k == "opt_id" else (st.id_of(a) if k == "id" else none()))
        slot = st.new_temp(val)
        ys = set()
        try:
            for (s1, k1, v1, m1) in run_fn(I, st, nextk, lambda s: [VRef(slot, (), True)]):
                if k1 == "return" and isinstance(v1, VEnum) and v1.variant == "Some":
                    ys.add(s1.node_of_id(v1.get("0")))
        except (Undecided, Panic):
            pass
        if ys == {b}:
            roles[cursors[0]], roles[cursors[1]] = "tail", "head"
    # anything else keeps its path as name
    for p in kinds:
        roles.setdefault(p, "/".join(p))
    if len(set(roles.values())) != len(roles):
        roles = {p: "/".join(p) for p in kinds}
    return roles


def run_fn(I, st, key, args):
    """All terminals of calling `key` from st: [(state, kind, value, msg)]."""
    return _stage(I, [st], key, lambda s: args(s), None)


def iters_entry(I):
    recs = []
    for (name, ty, nextk, backk, newk) in iter_kinds(I):
        roles = role_map(I, name, ty, nextk)

        def rkey(p, roles=roles):
            return roles.get(tuple(p), "/".join(p))
        # ---- constructor table
        if newk:
            st = State()
            x = st.new_node(True, "arg:node")
            for (s1, k1, v1, m1) in run_fn(I, st, newk, lambda s: [driver.arena_ref(False), s.id_of(x)]):
                view = spec.View(I, s1)
                rec = {"entry": "iters", "table": name + "::new", "exit": k1, "msg": m1, "node": x}
                if k1 == "return":
                    rec["state"] = state_dict(view, rkey, v1)
                    rec["facts"] = {f: view.pre(x, f) for f in ("parent", "first_child", "last_child") if f in s1.nodes[x].h0}
                    rec["reach"] = [list(r) for r in s1.meta.get("reach", ())]
                    pp = s1.h0_link(x, "parent")
                    if pp not in ("unk", None):
                        rec["facts"]["parent.first_child"] = view.pre(pp, "first_child") if "first_child" in s1.nodes[pp].h0 else "unk"
                        rec["facts"]["parent.last_child"] = view.pre(pp, "last_child") if "last_child" in s1.nodes[pp].h0 else "unk"
                    # the ends of the constructed range: their outward links
                    for pth, val in rec["state"].items():
                        if isinstance(val, tuple) and val[0] == "Some" and isinstance(val[1], str):
                            e = val[1]
                            rec.setdefault("ends", {})[pth] = {f: (view.pre(e, f) if f in s1.nodes[e].h0 else "unk") for f in ("next_sibling", "previous_sibling", "parent")}
                    rec["decisions"] = list(s1.decisions)
                recs.append(rec)
        # ---- step tables from generic states
        lv = [p for p, _ in leaves(build(I, ty, lambda k, p: none() if k != "id" else UNIT))]
        kinds = {}
        build(I, ty, lambda k, p: kinds.setdefault(p, k) and none())
        cursors = [p for p, k in kinds.items() if k == "opt_id"]
        edges = [p for p, k in kinds.items() if k == "opt_edge"]
        roots = [p for p, k in kinds.items() if k == "id"]
        for fnk, which in ((nextk, "next"), (backk, "next_back")):
            if fnk is None or name == "Descendants":
                continue        # Descendants::next is find_map over its inner Traverse: closure table + E1 rule instead
            if edges:
                cases = []
                for variant in ("Start", "End", None):
                    for alias in ((True, False) if variant else (False,)):
                        cases.append((variant, alias))
            else:
                cases = []
                if len(cursors) == 1:
                    cases = [("one", True), ("one", False)]
                elif len(cursors) == 2:
                    cases = [("SS-eq", None), ("SS-ne", None), ("NN", None), ("SN", None), ("NS", None)]
            for case in cases:
                st = State()
                info = {}

                def leaf(kind, path, st=st, case=case, info=info, roles=roles):
                    if kind == "id":
                        r = info.setdefault("root", st.new_node(True, "root"))
                        return st.id_of(r)
                    if kind == "edge":
                        r = info.setdefault("root", st.new_node(True, "root"))
                        return VEnum(EDGE, closing_variant(I, newk), (("0", st.id_of(r)),))
                    if kind == "opt_edge":
                        variant, alias = case
                        if variant is None:
                            return none()
                        r = info.setdefault("root", st.new_node(True, "root"))
                        c = r if alias else info.setdefault("c", st.new_node(True, "generic cursor"))
                        info["c"] = c
                        return some(VEnum(EDGE, variant, (("0", st.id_of(c)),)))
                    # opt_id
                    tag = case[0]
                    if tag == "one":
                        if case[1]:
                            c = info.setdefault("c", st.new_node(True, "generic cursor"))
                            return some(st.id_of(c))
                        return none()
                    first = roles.get(tuple(path)) != "tail"
                    if tag == "SS-eq":
                        c = info.setdefault("c", st.new_node(True, "generic cursor"))
                        info["h"] = info["t"] = c
                        return some(st.id_of(c))
                    if tag == "SS-ne":
                        c = st.new_node(True, "head" if first else "tail")
                        info["h" if first else "t"] = c
                        return some(st.id_of(c))
                    if tag == "NN":
                        return none()
                    if tag == "SN":
                        if first:
                            info["h"] = st.new_node(True, "head")
                            return some(st.id_of(info["h"]))
                        return none()
                    if tag == "NS":
                        if first:
                            return none()
                        info["t"] = st.new_node(True, "tail")
                        return some(st.id_of(info["t"]))
                val = build(I, ty, leaf)
                slot = st.new_temp(val)
                for (s1, k1, v1, m1) in run_fn(I, st, fnk, lambda s: [VRef(slot, (), True)]):
                    view = spec.View(I, s1)
                    rec = {"entry": "iters", "table": "%s::%s" % (name, which), "case": list(case), "exit": k1, "msg": m1,
                           "info": {k: v for k, v in info.items() if k != "seen_first"}}
                    if k1 == "return":
                        rec["yield"] = dec(view, v1)
                        after = s1.meta["temps"][slot[1]]
                        rec["state"] = state_dict(view, rkey, after)
                        writes = [e for e in s1.events if e[0] in ("write", "write-arena", "push", "clear")]
                        rec["writes"] = len(writes)
                        c = info.get("c") or info.get("h") or info.get("t")
                        cs = [n for n in (info.get("c"), info.get("h"), info.get("t")) if n]
                        rec["links"] = {n: {f: (view.pre(n, f) if f in s1.nodes[n].h0 else "unk") for f in LINKS} for n in cs}
                    recs.append(rec)
    # ---- NodeEdge::next_traverse / prev_traverse tables and the inverse law
    for fn, inv in (("next_traverse", "prev_traverse"), ("prev_traverse", "next_traverse")):
        for variant in ("Start", "End"):
            st = State()
            c = st.new_node(True, "generic node")
            e0 = VEnum(EDGE, variant, (("0", st.id_of(c)),))
            for (s1, k1, v1, m1) in run_fn(I, st, EDGE + "::" + fn, lambda s: [e0, driver.arena_ref(False)]):
                view = spec.View(I, s1)
                rec = {"entry": "iters", "table": "NodeEdge::" + fn, "case": [variant], "exit": k1, "msg": m1, "node": c}
                if k1 == "return":
                    out = dec(view, v1)
                    rec["result"] = out
                    rec["links"] = {f: (view.pre(c, f) if f in s1.nodes[c].h0 else "unk") for f in LINKS}
                    rec["writes"] = len([e for e in s1.events if e[0] in ("write", "write-arena", "push", "clear")])
                    if out is not None:
                        ev = v1.get("0")
                        back = []
                        for (s2, k2, v2, m2) in run_fn(I, s1, EDGE + "::" + inv, lambda s: [ev, driver.arena_ref(False)]):
                            back.append([k2, dec(spec.View(I, s2), v2) if k2 == "return" else m2])
                        rec["inverse"] = back
                recs.append(rec)
    # ---- Descendants without a find_map closure (an explicit loop over the inner traversal): step table with the inner Traverse::next scripted
    dk = [k for k in I.fns if k.startswith("<crate::traverse::Descendants<") and k.endswith("::next::{closure#0}")]
    dn = [k for k in I.fns if k.startswith("<crate::traverse::Descendants<") and k.endswith("::next")]
    tnext = I.impl_index.get((ITER_T, "next", TRV + "Traverse"))
    if not dk and dn and tnext:
        dty = None
        for (name, ty, nextk, backk, newk) in iter_kinds(I):
            if name == "Descendants":
                dty = ty
        scripts = [("Start",), ("End", "Start"), ("End", "End", "Start"), ("End", None), (None,)]
        for script in scripts:
            st = State()
            x = st.new_node(True, "root")
            cs = [st.new_node(True, "node of edge %d" % i) for i in range(len(script))]
            vals = [none() if kind is None else some(VEnum(EDGE, kind, (("0", st.id_of(cs[i])),))) for i, kind in enumerate(script)]
            st.meta["stubs"] = {tnext: vals}
            try:
                tnew = [k for k in I.fns if k.endswith("::new") and k.startswith(TRV + "Traverse<")]
                val = build(I, dty, lambda k, p: st.id_of(x) if k == "id" else (VEnum(EDGE, closing_variant(I, tnew[0]), (("0", st.id_of(x)),)) if k == "edge" else none()))
                slot = st.new_temp(val)
                outs = run_fn(I, st, dn[0], lambda s: [VRef(slot, (), True)])
            except (Undecided, Panic) as ex:
                recs.append({"entry": "iters", "table": "Descendants::next::steps", "case": [str(k) for k in script], "exit": "undecided", "msg": str(ex)})
                continue
            for (s1, k1, v1, m1) in outs:
                rec = {"entry": "iters", "table": "Descendants::next::steps", "case": [str(k) for k in script], "exit": k1, "msg": m1}
                if k1 == "return":
                    rec["result"] = dec(spec.View(I, s1), v1)
                    rec["inner_calls"] = s1.meta.get("stub_count", {}).get(tnext, 0)
                    # the inner traversal is advanced through its own next() only (scripted here, so its state must be exactly what it was)
                    rec["inner_untouched"] = vkey(s1.meta["temps"][slot[1]]) == vkey(val)
                    rec["expected"] = ["Some", cs[len(script) - 1]] if script[-1] == "Start" else None
                    rec["writes"] = len([e for e in s1.events if e[0] in ("write", "write-arena", "push", "clear")])
                recs.append(rec)
    # ---- Descendants: closure table of its find_map
    for key in dk:
        for variant in ("Start", "End"):
            st = State()
            c = st.new_node(True, "generic node")
            e0 = VEnum(EDGE, variant, (("0", st.id_of(c)),))
            cl = VClosure(key, ())
            try:
                v, sc, w = I.run_pure(st, cl, [e0], "Descendants closure")
                recs.append({"entry": "iters", "table": "Descendants::next::closure", "case": [variant], "exit": "return", "result": dec(spec.View(I, sc), v), "node": c, "writes": len(w)})
            except (Undecided, Panic, Fork) as ex:
                recs.append({"entry": "iters", "table": "Descendants::next::closure", "case": [variant], "exit": "undecided", "msg": str(ex)})
    return recs
