"""E2 entry 'ppstep' (C14): the indent writer of debug_pretty_print as a transducer.

For every step of the printer - open an item, close an item, write one line fragment of a payload - and for every abstract pre-state satisfying the
invariant Inv, the MIR is executed on abstract values (an indent stack of arbitrary depth = one summarised run + an explicit top; an arbitrary input
string = text / line break / rest) and the emitted text and the post-state are compared with the reference transducer below.

    Inv: the stack is  e_1 .. e_k  (k >= 0); every entry but the top has its first-line flag cleared; the line state is `line start` or `mid line`
    G(stack) = guide(e_1) ++ .. ++ guide(e_k);   guide(last, fresh) = fresh ? (last ? "`-- " : "|-- ") : (last ? "    " : "|   ")
    open(b):      emits "\\n" unless at line start;  line start;  top.fresh := false;  push (last = b, fresh = true)
    close:        pops (Err on the empty stack), emits nothing
    fragment L (= text [+ line break], non-empty):   emits (at line start ? G(stack) : "") ++ L;   top.fresh &&= L has no line break;
                  line state := line start iff L ends with a line break
    empty string: emits nothing

Nothing here knows private names: the writer is the type implementing fmt::Write in the printer's module, its fields are found by type, the roles of
the two element flags by what `open` pushes, the line states by what `new()` starts with.
"""
from .values import *
from .state import *
from . import ppmodels as pm
from .interp import Interp, lin_combine

WRITE_T = "core::fmt::Write"


class Setup(Exception):
    pass


def discover(I):
    prog = I.prog
    cands = [(adt, key) for (tr, m, adt), key in I.impl_index.items() if tr == WRITE_T and m == "write_str" and adt.startswith("crate::")]
    if len(cands) != 1:
        raise Setup("expected exactly one fmt::Write implementation in the crate, found %d" % len(cands))
    wadt, write_str = cands[0]
    a = prog.adts[wadt]
    fields = a["variants"][0]["fields"]
    roles = {}
    for fd in fields:
        t = prog.ty(fd["ty"])
        s = t["s"]
        if t["k"] == "adt" and t.get("path", "").endswith("vec::Vec"):
            el = prog.ty(t["args"][0])
            roles.setdefault("stack", []).append((fd["name"], el.get("path")))
        elif t["k"] == "adt" and t.get("local") and prog.adts.get(t["path"], {}).get("kind") == "enum":
            roles.setdefault("line", []).append((fd["name"], t["path"]))
        elif t["k"] == "ref" and "Formatter" in s:
            roles.setdefault("sink", []).append((fd["name"], None))
        elif t["k"] == "int":
            roles.setdefault("ints", []).append((fd["name"], (t["bits"], t["signed"])))
        elif t["k"] == "bool":
            roles.setdefault("bools", []).append((fd["name"], None))
        else:
            raise Setup("writer field %s of unsupported type %s" % (fd["name"], s))
    for r in ("stack", "line", "sink"):
        if len(roles.get(r, [])) != 1:
            raise Setup("cannot identify the %s field of the writer" % r)
    # other impl items of the Write impl: only write_str may be overridden (write_char / write_fmt defaults funnel into it)
    others = [key for (tr, m, adt), key in I.impl_index.items() if tr == WRITE_T and adt == wadt and m != "write_str"]
    meths = []
    for k, f in I.fns.items():
        if k.startswith(wadt + "<") and "mir" in f and not f.get("impl_trait_path") and "{closure" not in k:
            mir = f["mir"]
            tys = [prog.tys(mir["locals"][i]["ty"]) for i in range(1, mir["arg_count"] + 1)]
            meths.append((k, tys, prog.tys(mir["locals"][0]["ty"])))
    new = [k for k, tys, ret in meths if not (tys and wadt in tys[0]) and wadt in ret]
    def small(ty_s):
        if ty_s == "bool":
            return True
        ea = prog.adts.get(ty_s)
        return ea is not None and ea.get("kind") == "enum" and all(not v["fields"] for v in ea["variants"]) and len(ea["variants"]) <= 4
    opens = [k for k, tys, ret in meths if len(tys) == 2 and tys[0].startswith("&") and "mut " in tys[0] and small(tys[1])]
    closes = [k for k, tys, ret in meths if len(tys) == 1 and tys[0].startswith("&") and "mut " in tys[0] and ("Result" in ret or "Option" in ret or ret == "bool")]
    # only the ones used from outside the writer's own methods
    from .. import rules
    idx = rules.Index(prog)
    own = {k for k, _, _ in meths} | {write_str}
    opens = [k for k in opens if any(u not in own for u in idx.users(k))]
    closes = [k for k in closes if any(u not in own for u in idx.users(k))]
    if len(new) != 1 or len(opens) != 1 or len(closes) != 1:
        raise Setup("cannot identify constructor/open/close of the writer (new=%s open=%s close=%s)" % (new, opens, closes))
    oty = [tys[1] for k, tys, ret in meths if k == opens[0]][0]
    if oty == "bool":
        argdom = [(False, VBool(False)), (True, VBool(True))]
    else:
        argdom = [(v["name"], VEnum(oty, v["name"], ())) for v in prog.adts[oty]["variants"]]
    return {"writer": wadt, "write_str": write_str, "new": new[0], "open": opens[0], "close": closes[0], "fields": [fd["name"] for fd in fields], "roles": roles,
            "other_write_items": others, "elem": roles["stack"][0][1], "line_adt": roles["line"][0][1], "open_arg_domain": argdom, "own_methods": sorted(own)}


def mk_writer(I, st, d, line_variant, stack_items):
    sid = pm.new_seq(st, stack_items)
    fs = []
    prog = I.prog
    for fd in prog.adts[d["writer"]]["variants"][0]["fields"]:
        n = fd["name"]
        if n == d["roles"]["stack"][0][0]:
            fs.append((n, VPy("seqvec", sid)))
        elif n == d["roles"]["line"][0][0]:
            fs.append((n, VEnum(d["line_adt"], line_variant, ())))
        elif n == d["roles"]["sink"][0][0]:
            fs.append((n, VOpaque("sink")))
        else:
            t = prog.ty(fd["ty"])
            if t["k"] == "int":
                sym = ("w0", n)
                lo, hi = int_range(t["bits"], t["signed"])
                st.bounds[sym] = (lo, min(hi, ISIZE_MAX))
                fs.append((n, VInt(Lin(0, sym, 1), t["bits"], t["signed"])))
            else:
                raise Setup("cannot build writer field " + n)
    root = st.new_temp(VStruct(d["writer"], fs))
    return root, sid


def run(I, st, key, args, stop_loop=False):
    """All terminals of calling key(args): [(kind, state, value, msg)]."""
    out = []
    s = st.copy()
    s.frames = []
    s.steps = 0
    I.push_call(s, key, args, None, None)
    if stop_loop:
        heads = sorted(I.loop_heads(key))
        if len(heads) != 1:
            raise Setup("expected one loop in %s, found %d" % (key, len(heads)))
        s.meta["stop_at"] = (s.frames[-1].uid, heads[0])
        s.meta["stop_armed"] = False
    I.explore([s], lambda t: out.append((t.kind, t.st, t.value, t.msg)), stop_kind="loophead" if stop_loop else None)
    return out


def line_of(I, st, d, wroot):
    w = st.meta["temps"][wroot[1]]
    v = I.force(st, w.get(d["roles"]["line"][0][0]))
    return v.variant if isinstance(v, VEnum) else repr(v)


def stack_of(I, st, d, wroot):
    w = st.meta["temps"][wroot[1]]
    v = w.get(d["roles"]["stack"][0][0])
    if not (isinstance(v, VPy) and v.tag == "seqvec"):
        return None
    return st.meta["seqs"][v.data]


def describe_stack(I, st, items):
    out = []
    for it in items:
        if it[0] == "g":
            adt, al, sym = st.meta["segs"][it[1]]
            out.append(["run", it[1], sorted(map(list, al))])
        else:
            out.append(["elem", it[1], list(pm.elem_combo_now(I, st, it[1]))])
    return out


# ------------------------------------------------------------------ trace canonical form
def canon(st, atoms):
    """Literals merged; a run whose every allowed element prints the same string becomes a repetition; repetitions of c absorb adjacent copies of c."""
    xs = []
    for a in atoms:
        if a[0] == "mapseg":
            gid, table = a[1], dict(a[2])
            vals = {v for v in table.values()}
            n = Lin(0, ("seglen", gid), 1)
            if len(vals) == 1:
                d = next(iter(vals))
                if d == ():
                    continue
                if len(d) == 1 and d[0][0] == "lit":
                    xs.append(["rep", d[0][1], n])
                    continue
            xs.append(["mapseg", gid, tuple(sorted(table.items()))])
        elif a[0] == "rep":
            d = a[1]
            if d == ():
                continue
            if len(d) == 1 and d[0][0] == "lit":
                xs.append(["rep", d[0][1], a[2]])
            else:
                xs.append(["repx", d, a[2]])
        elif a[0] == "lit":
            if a[1]:
                xs.append(["lit", a[1]])
        else:
            xs.append(list(a))
    changed = True
    while changed:
        changed = False
        out = []
        for x in xs:
            if out and x[0] == "lit" and out[-1][0] == "lit":
                out[-1][1] += x[1]
                changed = True
            elif out and x[0] == "rep" and out[-1][0] == "rep" and out[-1][1] == x[1]:
                out[-1][2] = lin_combine(out[-1][2], x[2], 1)
                changed = True
            elif out and x[0] == "rep" and out[-1][0] == "lit" and out[-1][1].endswith(x[1]):
                # "...c" rep(c, n)  ->  "..." rep(c, n + 1)
                pre = out[-1][1][:-len(x[1])]
                if pre:
                    out[-1][1] = pre
                else:
                    out.pop()
                out.append(["rep", x[1], lin_combine(x[2], Lin(1), 1)])
                changed = True
            elif out and x[0] == "lit" and out[-1][0] == "rep" and x[1].startswith(out[-1][1]):
                # rep(c, n) "c..."  ->  rep(c, n + 1) "..."
                out[-1][2] = lin_combine(out[-1][2], Lin(1), 1)
                rest = x[1][len(out[-1][1]):]
                if rest:
                    out.append(["lit", rest])
                changed = True
            else:
                out.append(x)
        xs = out
    res = []
    for x in xs:
        if x[0] in ("rep", "repx"):
            lo, hi = st.term_bounds(x[2])
            if lo == hi == 0:
                continue
            res.append((x[0], x[1], repr(x[2])))
        else:
            res.append(tuple(x))
    return tuple(res)


# ------------------------------------------------------------------ reference transducer
def guide(last, fresh):
    if fresh:
        return "`-- " if last else "|-- "
    return "    " if last else "|   "


class Roles:
    """Which element field is the `last sibling` flag and which the `first line` flag (and its polarity), read off what open() pushes."""

    def __init__(self, fields, last_field, first_field, fresh_value, last_value=True, arg_to_flag=None):
        self.fields, self.last_field, self.first_field, self.fresh_value, self.last_value = fields, last_field, first_field, fresh_value, last_value
        self.li, self.fi = fields.index(last_field), fields.index(first_field)
        self.arg_to_flag = arg_to_flag or {}

    def lf(self, combo):
        return (combo[self.li] == self.last_value), (combo[self.fi] == self.fresh_value)

    def stale(self, allcombos):
        return frozenset(c for c in allcombos if c[self.fi] != self.fresh_value)


def spec_guides(I, st, roles, items, assign):
    """G(stack) as trace atoms; `assign` maps explicit element id -> full combo."""
    out = []
    for it in items:
        if it[0] == "g":
            adt, al, sym = st.meta["segs"][it[1]]
            out.append(("mapseg", it[1], tuple(sorted((c, (("lit", guide(*roles.lf(c))),)) for c in al))))
        else:
            out.append(("lit", guide(*roles.lf(assign[it[1]]))))
    return out


def assignments(I, st, items, roles):
    """All completions of the undecided initial flags of the explicit elements (as {tid: combo}); decided ones are fixed."""
    els = [it[1] for it in items if it[0] == "e"]
    outs = [{}]
    for e in els:
        ent = st.meta.get("combos", {}).get(e)
        val = st.meta["temps"][e]
        if ent is None:
            combo = pm.elem_combo_now(I, st, e)
            outs = [dict(o, **{e: combo}) for o in outs]
        else:
            outs = [dict(o, **{e: c}) for o in outs for c in sorted(ent[1])]
    return outs


def elem_value_under(I, st, tid, init_combo, fields):
    """Current value of an element as a combo, reading undecided initial flags from `init_combo`."""
    val = st.meta["temps"][tid]
    out = []
    for f, x in val.fields:
        if isinstance(x, VBool):
            out.append(x.b)
        elif isinstance(x, VEnum) and not x.fields:
            out.append(x.variant)
        elif isinstance(x, VSymBool):
            # initial value of some element's field
            src = init_combo.get(x.elem)
            if src is None:
                return None
            out.append(src[fields.index(x.field)])
        else:
            return None
    return tuple(out)


def driver_last_arg(I, d):
    """The value the driver passes to open() for a node that has no next sibling (None when the driver analysis did not establish it)."""
    return I.__dict__.get("_pp_last_arg")


def ppstep_entry(I):
    recs = []
    try:
        d = discover(I)
    except Setup as e:
        return [{"entry": "ppstep", "step": "setup", "exit": "undecided", "msg": str(e)}]
    recs.append({"entry": "ppstep", "step": "setup", "exit": "return", "found": {k: d[k] for k in ("writer", "write_str", "new", "open", "close", "elem", "line_adt", "other_write_items")},
                 "roles": {k: [x[0] for x in v] for k, v in d["roles"].items()}})
    try:
        recs.extend(_steps(I, d))
    except Setup as e:
        recs.append({"entry": "ppstep", "step": "setup", "exit": "undecided", "msg": str(e)})
    return recs


def base_state():
    st = State()
    st.meta["pp"] = True
    return st


def _steps(I, d):
    recs = []
    prog = I.prog
    fields = pm.elem_fields(I, d["elem"])
    if len(fields) != 2:
        raise Setup("indent stack entries have %d flags, expected 2" % len(fields))
    ALL = pm.all_combos(I, d["elem"])
    variants = [v["name"] for v in prog.adts[d["line_adt"]]["variants"]]
    # ---- new(): initial line state, empty stack
    st = base_state()
    outs = run(I, st, d["new"], [VOpaque("sink")])
    if len(outs) != 1 or outs[0][0] != "return":
        raise Setup("constructor of the writer is not a single straight path: %s" % [(o[0], o[3]) for o in outs])
    w0 = outs[0][2]
    s0 = outs[0][1]
    init_line = I.force(s0, w0.get(d["roles"]["line"][0][0])).variant
    stack0 = w0.get(d["roles"]["stack"][0][0])
    empty0 = isinstance(stack0, VPy) and stack0.tag == "seqvec" and s0.meta["seqs"][stack0.data] == ()
    recs.append({"entry": "ppstep", "step": "new", "exit": "return", "line": init_line, "stack_empty": empty0, "ok": bool(empty0)})
    # ---- roles of the element flags: what does open(b) push onto the empty stack?
    pushed = {}
    for b, bval in d["open_arg_domain"]:
        st = base_state()
        wroot, sid = mk_writer(I, st, d, init_line, ())
        outs = run(I, st, d["open"], [VRef(wroot, (), True), bval])
        if len(outs) != 1 or outs[0][0] != "return":
            raise Setup("open(%s) on the empty stack is not a single returning path: %s" % (b, [(o[0], o[3]) for o in outs]))
        items = stack_of(I, outs[0][1], d, wroot)
        if not items or len(items) != 1 or items[0][0] != "e":
            raise Setup("open() does not push exactly one entry")
        pushed[b] = pm.elem_combo_now(I, outs[0][1], items[0][1])
    argvals = [b for b, _ in d["open_arg_domain"]]
    lastf = [i for i in range(2) if len({pushed[b][i] for b in argvals}) == len(argvals) and None not in {pushed[b][i] for b in argvals}]
    firstf = [i for i in range(2) if len({pushed[b][i] for b in argvals}) == 1 and pushed[argvals[0]][i] is not None]
    if len(lastf) != 1 or len(firstf) != 1 or lastf == firstf or len(argvals) != 2:
        raise Setup("cannot tell the roles of the entry flags from what open() pushes: %s" % pushed)
    arg_to_flag = {b: pushed[b][lastf[0]] for b in argvals}
    # which argument value means `last sibling`: the driver says (what it passes for a node without next sibling); for a bool flag the default reading is `true`
    last_arg = None
    try:
        from . import ppdriver
        drecs, last_flag = ppdriver.driver_entry(I, d, init_line, fields, arg_to_flag, lastf[0])
        recs.extend(drecs)
        hits = [b for b in argvals if arg_to_flag[b] == last_flag]
        if last_flag is not None and len(hits) == 1:
            last_arg = hits[0]
    except (ppdriver.Setup, Undecided, Panic) as e:
        recs.append({"entry": "ppstep", "step": "driver-setup", "exit": "undecided", "msg": "driver analysis: %s" % e})
    if last_arg is None:
        if set(argvals) == {False, True}:
            last_arg = True
        else:
            raise Setup("cannot tell which value of the open() argument means `last sibling`")
    roles = Roles(fields, fields[lastf[0]], fields[firstf[0]], pushed[argvals[0]][firstf[0]], last_value=arg_to_flag[last_arg], arg_to_flag=arg_to_flag)
    roles.last_arg = last_arg
    recs.append({"entry": "ppstep", "step": "roles", "exit": "return", "last_flag": roles.last_field, "first_flag": roles.first_field, "fresh_value": roles.fresh_value,
                 "last_value": roles.last_value, "last_arg": last_arg})
    STALE = roles.stale(ALL)

    def prestates(line):
        """(label, state, writer root) for the stack shapes of Inv."""
        out = []
        st = base_state()
        wroot, sid = mk_writer(I, st, d, line, ())
        out.append(("empty stack", st, wroot))
        st = base_state()
        g = pm.new_seg(I, st, d["elem"], STALE)
        top = pm.new_elem(I, st, d["elem"], ALL)
        wroot, sid = mk_writer(I, st, d, line, (("g", g), ("e", top)))
        out.append(("any depth >= 1", st, wroot))
        return out

    # ---- the line states reachable at step boundaries, explored breadth first
    todo = [init_line]
    seen = set()
    mid_states = set()
    while todo:
        line = todo.pop()
        if line in seen:
            continue
        seen.add(line)
        at_start = (line == init_line)
        for label, st, wroot in prestates(line):
            pre_items = stack_of(I, st, d, wroot)
            # -- open(b)
            for b, bval in d["open_arg_domain"]:
                for (kind, s1, v1, m1) in run(I, st, d["open"], [VRef(wroot, (), True), bval]):
                    rec = {"entry": "ppstep", "step": "open", "line": line, "stack": label, "arg": b, "exit": kind, "msg": m1}
                    if kind == "return":
                        post = stack_of(I, s1, d, wroot)
                        rec.update(check_open(I, s1, d, roles, wroot, pre_items, post, at_start, (b == roles.last_arg), init_line, fields))
                        todo.append(rec["post_line"])
                    recs.append(rec)
            # -- close
            for (kind, s1, v1, m1) in run(I, st, d["close"], [VRef(wroot, (), True)]):
                rec = {"entry": "ppstep", "step": "close", "line": line, "stack": label, "exit": kind, "msg": m1}
                if kind == "return":
                    post = stack_of(I, s1, d, wroot)
                    res = I.force(s1, v1)
                    pre2 = pm.check_items(s1, pre_items)
                    okv = (isinstance(res, VEnum) and res.variant == (("Ok" if pre2 else "Err") if res.adt == RESULT else ("Some" if pre2 else "None"))) or \
                          (isinstance(res, VBool) and res.b == bool(pre2))
                    popped = post == pre2[:-1] if pre2 else post == ()
                    out = canon(s1, s1.meta.get("out", ()))
                    rec.update({"result": getattr(res, "variant", repr(res)), "ok": bool(okv and popped and out == () and line_of(I, s1, d, wroot) == line),
                                "emitted": repr(out), "post_line": line_of(I, s1, d, wroot)})
                recs.append(rec)
            # -- an overridden write_char: the line-break character and a generic other character
            for wc in [k for k in d["other_write_items"] if k.endswith("::write_char")]:
                for which in ("newline", "other"):
                    st2 = st.copy()
                    if which == "newline":
                        carg = VInt(Lin(10), 32, False)
                    else:
                        csym = ("ch", "c")
                        st2.bounds[csym] = (0, 0x10FFFF)
                        st2.cmp[("Eq", 1, csym, 0, 0, None, 10)] = False
                        st2.cmp[("Eq", 0, None, 10, 1, csym, 0)] = False
                        carg = VInt(Lin(0, csym, 1), 32, False)
                    for (kind, s1, v1, m1) in run(I, st2, wc, [VRef(wroot, (), True), carg]):
                        rec = {"entry": "ppstep", "step": "write_char", "char": which, "line": line, "stack": label, "exit": kind, "msg": m1}
                        if kind == "return":
                            rec.update(check_char(I, s1, d, roles, wroot, pre_items, at_start, init_line, which, v1, fields))
                            if rec.get("post_line"):
                                todo.append(rec["post_line"])
                        recs.append(rec)
            # -- write_str: one loop iteration (or the exit on the empty string)
            sarg = VPy("str", (("any", "s0"),))
            for (kind, s1, v1, m1) in run(I, st, d["write_str"], [VRef(wroot, (), True), sarg], stop_loop=True):
                rec = {"entry": "ppstep", "step": "write", "line": line, "stack": label, "exit": kind, "msg": m1}
                if kind in ("return", "loophead"):
                    rec.update(check_write(I, s1, d, roles, wroot, pre_items, at_start, init_line, kind, v1, fields))
                    if rec.get("post_line"):
                        todo.append(rec["post_line"])
                        if rec.get("fragment") == "text":
                            mid_states.add(rec["post_line"])
                recs.append(rec)
    recs.append({"entry": "ppstep", "step": "states", "exit": "return", "reachable": sorted(seen), "initial": init_line, "mid": sorted(mid_states), "all": variants,
                 "ok": len(mid_states) <= 1})
    return recs


def check_open(I, s1, d, roles, wroot, pre_items, post, at_start, b, init_line, fields):
    res = {}
    pre_items = pm.check_items(s1, pre_items)       # runs that were split during the step, as their parts
    out = canon(s1, s1.meta.get("out", ()))
    want_out = () if at_start else (("lit", "\n"),)
    res["emitted"] = repr(out)
    res["post_line"] = line_of(I, s1, d, wroot)
    ok = out == want_out and res["post_line"] == init_line
    why = []
    if out != want_out:
        why.append("emits %r, expected %r" % (out, want_out))
    if res["post_line"] != init_line:
        why.append("line state after open is %s" % res["post_line"])
    # stack: pre items, old top's first flag cleared, then (b, fresh)
    if post is None or len(post) != len(pre_items) + 1 or tuple(post[:-1]) != tuple(pre_items) or post[-1][0] != "e":
        ok = False
        why.append("stack after open is not the old stack plus one entry")
    else:
        for assign in assignments(I, s1, pre_items, roles):
            new = elem_value_under(I, s1, post[-1][1], assign, fields)
            if new is None or roles.lf(new) != (b, True):
                ok = False
                why.append("pushed entry is %s, expected (last=%s, fresh)" % (new, b))
                break
            for it in pre_items:
                if it[0] != "e":
                    continue
                cur = elem_value_under(I, s1, it[1], assign, fields)
                wl, wf = roles.lf(assign[it[1]])
                is_top = (it == pre_items[-1])
                if cur is None or roles.lf(cur) != (wl, False if is_top else wf):
                    ok = False
                    why.append("entry %s becomes %s" % (it[1], cur))
                    break
            if not ok:
                break
    res["ok"] = ok
    res["why"] = why
    res["post_stack"] = describe_stack(I, s1, post) if post else None
    return res


def check_char(I, s1, d, roles, wroot, pre_items, at_start, init_line, which, value, fields):
    res = {}
    why = []
    pre_items = pm.check_items(s1, pre_items)
    post = stack_of(I, s1, d, wroot)
    res["post_line"] = line_of(I, s1, d, wroot)
    out = canon(s1, s1.meta.get("out", ()))
    res["emitted"] = repr(out)
    has_nl = (which == "newline")
    frag = [("lit", "\n")] if has_nl else [("chr", "c")]
    ok = True
    rv = I.force(s1, value) if value is not None else None
    if not (isinstance(rv, VEnum) and rv.variant == "Ok"):
        ok = False
        why.append("write_char returns %r" % (rv,))
    if post is None or tuple(post) != tuple(pre_items):
        ok = False
        why.append("stack changed shape while writing a character")
    if has_nl and res["post_line"] != init_line:
        ok = False
        why.append("after a line break the state is %s, expected %s" % (res["post_line"], init_line))
    if not has_nl and res["post_line"] == init_line:
        ok = False
        why.append("after a character that is not a line break the state is still %s" % init_line)
    if ok:
        for assign in assignments(I, s1, pre_items, roles):
            want = (spec_guides(I, s1, roles, pre_items, assign) if at_start else []) + frag
            if canon(s1, want) != out:
                ok = False
                why.append("emits %r, expected %r (entries %s)" % (out, canon(s1, want), assign))
                break
            for it in pre_items:
                if it[0] != "e":
                    continue
                cur = elem_value_under(I, s1, it[1], assign, fields)
                wl, wf = roles.lf(assign[it[1]])
                if it == pre_items[-1]:
                    wf = wf and not has_nl
                if cur is None or roles.lf(cur) != (wl, wf):
                    ok = False
                    why.append("entry %s becomes %s, expected (last=%s, fresh=%s)" % (it[1], cur, wl, wf))
                    break
            if not ok:
                break
    res["ok"], res["why"] = bool(ok), why
    return res


def check_write(I, s1, d, roles, wroot, pre_items, at_start, init_line, kind, value, fields):
    res = {}
    why = []
    pre_items = pm.check_items(s1, pre_items)
    shape = pm.norm_parts(s1, (("any", "s0"),))
    res["string"] = repr(shape)
    post = stack_of(I, s1, d, wroot)
    res["post_line"] = line_of(I, s1, d, wroot)
    out = canon(s1, s1.meta.get("out", ()))
    res["emitted"] = repr(out)
    if shape == ():
        res["fragment"] = "empty"
        ok = kind == "return" and out == () and tuple(post) == tuple(pre_items) and res["post_line"] == (init_line if at_start else res["post_line"])
        rv = I.force(s1, value) if value is not None else None
        ok = ok and isinstance(rv, VEnum) and rv.variant == "Ok"
        if not ok:
            why.append("the empty string is not a no-op returning Ok")
        res["ok"], res["why"] = bool(ok), why
        return res
    if shape and shape[0][0] == "any":
        res["ok"], res["why"] = False, ["input string was never inspected"]
        return res
    has_nl = len(shape) >= 2 and shape[1] == ("nl",)
    res["fragment"] = "line" if has_nl else "text"
    frag = pm.str_atoms(shape[:2] if has_nl else shape[:1])
    rest = shape[2:] if has_nl else shape[1:]
    ok = True
    if kind == "return":
        # finishing at once is fine when the fragment was the whole string
        rv = I.force(s1, value) if value is not None else None
        if tuple(rest) != () or not (isinstance(rv, VEnum) and rv.variant == "Ok"):
            ok = False
            why.append("a string with more input left returns after its first fragment")
    elif kind != "loophead":
        ok = False
        why.append("a non-empty string leaves the loop after its first fragment (%s)" % kind)
    else:
        # remaining input = the rest of the string
        fr = s1.frames[-1]
        strs = [pm.str_parts(I, s1, v) for l, v in fr.locals.items() if isinstance(v, (VStr, VPy)) and (isinstance(v, VStr) or v.tag == "str")]
        strs += [pm.norm_parts(s1, v.data) for l, v in fr.locals.items() if isinstance(v, VPy) and v.tag == "splitinc"]
        if tuple(rest) not in [tuple(x) for x in strs if x is not None]:
            ok = False
            why.append("remaining input is not the rest of the string: %r" % (strs,))
    if post is None or tuple(post) != tuple(pre_items):
        ok = False
        why.append("stack changed shape while writing")
    want_line_start = has_nl
    if want_line_start and res["post_line"] != init_line:
        ok = False
        why.append("after a line break the state is %s, expected %s" % (res["post_line"], init_line))
    if not want_line_start and res["post_line"] == init_line:
        ok = False
        why.append("after text without a line break the state is still %s" % init_line)
    if ok:
        for assign in assignments(I, s1, pre_items, roles):
            want = (spec_guides(I, s1, roles, pre_items, assign) if at_start else []) + frag
            if canon(s1, want) != out:
                ok = False
                why.append("emits %r, expected %r (entries %s)" % (out, canon(s1, want), assign))
                break
            for it in pre_items:
                if it[0] != "e":
                    continue
                cur = elem_value_under(I, s1, it[1], assign, fields)
                wl, wf = roles.lf(assign[it[1]])
                if it == pre_items[-1]:
                    wf = wf and not has_nl
                if cur is None or roles.lf(cur) != (wl, wf):
                    ok = False
                    why.append("entry %s becomes %s, expected (last=%s, fresh=%s)" % (it[1], cur, wl, wf))
                    break
            if not ok:
                break
    res["ok"], res["why"] = bool(ok), why
    res["post_stack"] = describe_stack(I, s1, post) if post else None
    return res
