"""Abstract sequences, symbolic strings and output traces: the extra std models the pretty-printer step analysis (C14) needs.

Sequence objects (Vec<E> / &[E] for a local struct E of bool fields) are lists of items:
    ("e", tid)   an explicit element, stored as the temp `tid` (fields are VBool, or VSymBool = the element's initial, undecided value)
    ("g", gid)   a *segment*: an unknown number (length symbol, >= 0) of elements, each of which lies in a set of allowed field combinations
so that an indent stack of arbitrary depth is one segment plus a few explicit elements.  Loops over a segment are summarised from one probe
iteration on a generic element (the body may only emit output); `take_while(..).count()` / `rposition` split a segment by the predicate.

Strings: VStr constants, or VPy("str", parts) with parts  ("txt", id, minlen) newline-free text | ("nl",) | ("any", id) arbitrary rest | ("lit", s).
Output: st.meta["out"] = tuple of atoms ("lit", s) | ("txt", id) | ("any", id) | ("mapseg", gid, table) | ("rep", atoms, count).
"""
from .values import *
from .state import *
from . import models
from .models import MODELS, model

BIG = ISIZE_MAX
# an indent stack has one entry per node on an ancestor path; the nodes live in one Vec<Node<T>>, whose allocation is at most isize::MAX bytes and whose
# elements are larger than 64 bytes (five Option<NodeId> links alone): fewer than 2^57 nodes, hence fewer than 2^57 stack entries
MAX_DEPTH = 1 << 57


# ------------------------------------------------------------------ meta helpers (copy on write)
def mget(st, k):
    return st.meta.get(k, {})


def mset(st, k, key, val):
    d = dict(st.meta.get(k, {}))
    d[key] = val
    st.meta[k] = d


def mdel(st, k, key):
    d = dict(st.meta.get(k, {}))
    d.pop(key, None)
    st.meta[k] = d


def fresh(st, prefix):
    c = st.meta.get("ppc", 0)
    st.meta["ppc"] = c + 1
    return "%s%d" % (prefix, c)


def lin_combine(a, b, sign=1):
    from .interp import lin_combine as lc
    return lc(a, b, sign)


def lin_eq(a, b):
    d = lin_combine(a, b, -1)
    return d.is_const() and d.c == 0


# ------------------------------------------------------------------ element types
def elem_domains(I, adt):
    """((field name, enum adt or None, (values...)), ...): every field of a sequence element is a bool or a small field-less local enum."""
    cache = I.__dict__.setdefault("_elem_domains", {})
    if adt in cache:
        return cache[adt]
    a = I.prog.adts.get(adt)
    if a is None or a.get("kind") != "struct":
        raise Undecided("sequence element type %s is not a local struct" % adt)
    out = []
    for fd in a["variants"][0]["fields"]:
        t = I.prog.ty(fd["ty"])
        if t["k"] == "bool":
            out.append((fd["name"], None, (False, True)))
            continue
        ea = I.prog.adts.get(t.get("path")) if t["k"] == "adt" else None
        if ea is not None and ea.get("kind") == "enum" and all(not v["fields"] for v in ea["variants"]) and 1 <= len(ea["variants"]) <= 4:
            out.append((fd["name"], t["path"], tuple(v["name"] for v in ea["variants"])))
            continue
        raise Undecided("sequence element field %s.%s is neither bool nor a small field-less enum" % (adt, fd["name"]))
    cache[adt] = tuple(out)
    return cache[adt]


def elem_fields(I, adt):
    return tuple(d[0] for d in elem_domains(I, adt))


def field_value(dom, val):
    """The abstract value of one element field holding `val` (a bool or a variant name)."""
    return VBool(val) if dom[1] is None else VEnum(dom[1], val, ())


def all_combos(I_or_n, adt=None):
    if adt is None:          # legacy: n bool fields
        doms = [(None, None, (False, True))] * I_or_n
    else:
        doms = elem_domains(I_or_n, adt)
    out = [()]
    for d in doms:
        out = [c + (b,) for c in out for b in d[2]]
    return frozenset(out)


def new_elem(I, st, adt, allowed):
    """A fresh explicit element whose fields are undecided within `allowed` (set of bool tuples in field order)."""
    fs = elem_fields(I, adt)
    root = st.new_temp(UNIT)
    tid = root[1]
    val = VStruct(adt, tuple((f, VSymBool(tid, f)) for f in fs))
    mset(st, "temps", tid, val)
    mset(st, "combos", tid, (adt, frozenset(allowed)))
    return tid


def force_symbool(I, st, v):
    ent = mget(st, "combos").get(v.elem)
    if ent is None:
        raise Undecided("undecided flag of an unknown element %r" % (v,))
    adt, allowed = ent
    fs = elem_fields(I, adt)
    i = fs.index(v.field)
    dom = elem_domains(I, adt)[i]
    vals = sorted({c[i] for c in allowed}, key=repr)
    if not vals:
        raise Infeasible("element with no allowed combination")
    if len(vals) == 1:
        return field_value(dom, vals[0])
    opts = []
    for b in vals:
        def f(s, b=b):
            adt2, al = mget(s, "combos")[v.elem]
            al2 = frozenset(c for c in al if c[i] == b)
            if not al2:
                raise Infeasible("no combination left")
            mset(s, "combos", v.elem, (adt2, al2))
        opts.append(("%s.%s=%s" % (v.elem, v.field, b), f))
    raise Fork(opts, "decide %r" % (v,))


def elem_combo_now(I, st, tid):
    """Current field values of an explicit element as a tuple of True/False/None(undecided initial value)."""
    val = mget(st, "temps")[tid]
    out = []
    for f, x in val.fields:
        if isinstance(x, VBool):
            out.append(x.b)
        elif isinstance(x, VEnum) and not x.fields:
            out.append(x.variant)
        elif isinstance(x, VSymBool):
            ent = mget(st, "combos").get(x.elem)
            vals = {c[elem_fields(I, ent[0]).index(x.field)] for c in ent[1]} if ent else set()
            out.append(next(iter(vals)) if len(vals) == 1 else None)
        else:
            out.append(None)
    return tuple(out)


# ------------------------------------------------------------------ sequences
def new_seq(st, items=()):
    sid = fresh(st, "s")
    mset(st, "seqs", sid, tuple(items))
    return sid


def new_seg(I, st, adt, allowed, lo=0):
    gid = fresh(st, "g")
    sym = ("seglen", gid)
    st.bounds[sym] = (lo, MAX_DEPTH)
    mset(st, "segs", gid, (adt, frozenset(allowed), sym))
    return gid


def seg_len(st, gid):
    return Lin(0, mget(st, "segs")[gid][2], 1)


def item_len(st, it):
    return Lin(1) if it[0] == "e" else seg_len(st, it[1])


def items_len(st, items):
    t = Lin(0)
    for it in items:
        t = lin_combine(t, item_len(st, it), 1)
    return t


def check_items(st, items, rev=False):
    """Views (slices, iterators) are snapshots of item lists: a run that was split after the view was taken is replaced by its parts."""
    segs = mget(st, "segs")
    alias = mget(st, "segalias")
    out = []
    for it in items:
        if it[0] == "g" and it[1] not in segs:
            if it[1] not in alias:
                raise Undecided("a slice view refers to a run that no longer exists")
            parts = alias[it[1]]
            out.extend(check_items(st, tuple(reversed(parts)) if rev else parts, rev))
        else:
            out.append(it)
    return tuple(out)


def seq_items(I, st, v):
    """Items of a Vec handle / slice / reference to either."""
    v = I.force(st, v)
    guard = 0
    while isinstance(v, VRef):
        v = I.force(st, I.load(st, v.root, v.path))
        guard += 1
        if guard > 4:
            break
    if isinstance(v, VPy) and v.tag == "seqvec":
        return check_items(st, mget(st, "seqs")[v.data]), v.data
    if isinstance(v, VPy) and v.tag == "slice":
        return check_items(st, v.data), None
    return None, None


def is_seq(I, st, v):
    try:
        items, _ = seq_items(I, st, v)
    except (Undecided, KeyError):
        return False
    return items is not None


def replace_seg_everywhere(st, gid, new_items):
    seqs = dict(mget(st, "seqs"))
    for sid, items in seqs.items():
        if ("g", gid) in items:
            out = []
            for it in items:
                if it == ("g", gid):
                    out.extend(new_items)
                else:
                    out.append(it)
            seqs[sid] = tuple(out)
    st.meta["seqs"] = seqs
    mdel(st, "segs", gid)
    mset(st, "segalias", gid, tuple(new_items))


def fork_materialise_end(I, st, gid, at_end=True):
    """Fork: the segment is empty | it has a last (first) element, made explicit."""
    adt, allowed, sym = mget(st, "segs")[gid]

    def empty(s):
        lo, hi = s.bounds[sym]
        if lo > 0:
            raise Infeasible("segment is not empty")
        replace_seg_everywhere(s, gid, [])

    def split(s):
        g2 = new_seg(I, s, adt, allowed)
        x = new_elem(I, s, adt, allowed)
        replace_seg_everywhere(s, gid, [("g", g2), ("e", x)] if at_end else [("e", x), ("g", g2)])
    raise Fork([("segment %s empty" % gid, empty), ("segment %s has an element at its %s" % (gid, "end" if at_end else "start"), split)], "materialise an end of segment " + gid)


def pred_on_combo(I, st, pred, adt, combo, by_ref=2):
    """Evaluate a closure on a concrete element value (by_ref = number of reference layers of its argument)."""
    doms = elem_domains(I, adt)
    val = VStruct(adt, tuple((d[0], field_value(d, b)) for d, b in zip(doms, combo)))
    arg = val
    tmp_state = st.copy()
    for _ in range(by_ref):
        arg = VRef(tmp_state.new_temp(arg), (), False)
    v, sc2, w = I.run_pure(tmp_state, pred, [arg], "sequence predicate")
    v = I.force(sc2, v)
    if not isinstance(v, VBool):
        raise Undecided("sequence predicate returned %r" % (v,))
    if w:
        raise Undecided("sequence predicate has effects")
    return v.b


def pred_on_elem(I, st, pred, tid, by_ref=2):
    arg = VRef(("temp", tid), (), False)
    for _ in range(by_ref - 1):
        arg = VRef(st.new_temp(arg), (), False)
    v, sc2, w = I.run_pure(st, pred, [arg], "sequence predicate")
    v = I.force(sc2, v)
    if not isinstance(v, VBool):
        raise Undecided("sequence predicate returned %r" % (v,))
    return v.b


def scan_from(I, st, items, pred, want, by_ref=2):
    """Walk `items` in order while pred(elem) != want ... returns (index of the first item whose element has pred == want, count Lin of elements
    before it) or (None, total) when no element does.  Segments are split (Fork) when the predicate is not uniform on them."""
    cnt = Lin(0)
    for j, it in enumerate(items):
        if it[0] == "e":
            if pred_on_elem(I, st, pred, it[1], by_ref) == want:
                return j, cnt
            cnt = lin_combine(cnt, Lin(1), 1)
            continue
        gid = it[1]
        adt, allowed, sym = mget(st, "segs")[gid]
        S = frozenset(c for c in allowed if pred_on_combo(I, st, pred, adt, c, by_ref) == want)
        if not S:
            cnt = lin_combine(cnt, seg_len(st, gid), 1)
            continue
        rest = allowed - S
        forward = True          # items are given in scan order; storage order may be reversed by the caller, which passes `storage_rev`
        raise _SplitNeeded(gid, S, rest)
    return None, cnt


class _SplitNeeded(Exception):
    def __init__(self, gid, S, rest):
        self.gid, self.S, self.rest = gid, S, rest


def scan(I, st, items, pred, want, reversed_storage, by_ref=2):
    """scan_from with segment splitting.  `items` are in scan order; reversed_storage says whether scan order is the reverse of storage order."""
    try:
        return scan_from(I, st, items, pred, want, by_ref)
    except _SplitNeeded as sp:
        gid, S, rest = sp.gid, sp.S, sp.rest
        adt, allowed, sym = mget(st, "segs")[gid]

        def none_hits(s):
            # no element of the segment has pred == want (this includes the empty segment)
            if not rest:
                lo, hi = s.bounds[sym]
                if lo > 0:
                    raise Infeasible("segment is not empty")
                replace_seg_everywhere(s, gid, [])
            else:
                a2, al, sy = mget(s, "segs")[gid]
                mset(s, "segs", gid, (a2, frozenset(rest), sy))

        def hit(s):
            # in scan order: a run without hits, then the first hit x, then the unconstrained remainder
            parts = []
            if rest:
                parts.append(("g", new_seg(I, s, adt, rest)))
            x = new_elem(I, s, adt, S)
            parts.append(("e", x))
            parts.append(("g", new_seg(I, s, adt, allowed)))
            if reversed_storage:
                parts.reverse()
            replace_seg_everywhere(s, gid, parts)
        raise Fork([("no element of %s satisfies the scan" % gid, none_hits), ("first hit inside %s" % gid, hit)], "split segment %s by a predicate" % gid)


# ------------------------------------------------------------------ strings
def str_parts(I, st, v):
    v = I.force(st, v)
    guard = 0
    while isinstance(v, VRef) and guard < 4:
        v = I.force(st, I.load(st, v.root, v.path))
        guard += 1
    if isinstance(v, VStr):
        return (("lit", v.s),) if v.s else ()
    if isinstance(v, VPy) and v.tag == "str":
        return norm_parts(st, v.data)
    return None


def norm_parts(st, parts, depth=0):
    if depth > 40:
        raise Undecided("string shape refined too deeply (unbounded unrolling of an arbitrary string?)")
    out = []
    strs = mget(st, "strs")
    for p in parts:
        if p[0] == "any" and strs.get(p[1]) is not None:
            out.extend(norm_parts(st, strs[p[1]], depth + 1))
        elif p[0] == "lit" and not p[1]:
            continue
        else:
            out.append(p)
    return tuple(out)


def part_len(st, p):
    if p[0] == "txt":
        return Lin(0, ("slen", p[1]), 1)
    if p[0] == "nl":
        return Lin(1)
    if p[0] == "lit":
        return Lin(len(p[1].encode()))
    return Lin(0, ("slen", "any:" + p[1]), 1)


def parts_len(st, parts):
    t = Lin(0)
    for p in parts:
        t = lin_combine(t, part_len(st, p), 1)
    return t


def fork_any(I, st, aid):
    """Decide the shape of an arbitrary string: empty | one non-empty newline-free text | text, newline, arbitrary rest."""
    def empty(s):
        mset(s, "strs", aid, ())

    def text(s):
        t = fresh(s, "t")
        s.bounds[("slen", t)] = (1, BIG)
        mset(s, "strs", aid, (("txt", t, 1),))

    def line(s):
        t = fresh(s, "t")
        s.bounds[("slen", t)] = (0, BIG)
        r = fresh(s, "r")
        s.bounds[("slen", "any:" + r)] = (0, BIG)
        mset(s, "strs", aid, (("txt", t, 0), ("nl",), ("any", r)))
    raise Fork([("%s is empty" % aid, empty), ("%s is text without a line break" % aid, text), ("%s = text, line break, rest" % aid, line)], "shape of string " + aid)


def mk_str(parts):
    parts = tuple(p for p in parts if not (p[0] == "lit" and not p[1]))
    if all(p[0] == "lit" for p in parts):
        return VStr("".join(p[1] for p in parts))
    return VPy("str", parts)


def emit(I, st, atoms):
    st.meta["out"] = tuple(st.meta.get("out", ())) + tuple(atoms)


def str_atoms(parts):
    out = []
    for p in parts:
        if p[0] == "nl":
            out.append(("lit", "\n"))
        elif p[0] == "lit":
            out.append(p)
        elif p[0] == "txt":
            out.append(("txt", p[1]))
        else:
            out.append(("any", p[1]))
    return out


# ------------------------------------------------------------------ liveness (for the generic-iteration check)
def _place_uses(pl, defs=None):
    return {pl["l"]}


def live_in(I, fnkey):
    cache = I.__dict__.setdefault("_live_cache", {})
    if fnkey in cache:
        return cache[fnkey]
    from ..cfg import CFG, succs
    from ..rules import _rv_operands
    mir = I.fns[fnkey]["mir"]
    blocks = mir["blocks"]
    n = len(blocks)
    use = [set() for _ in range(n)]
    kill = [set() for _ in range(n)]

    def rd(b, l):
        if l not in kill[b]:
            use[b].add(l)

    def rd_op(b, o):
        if isinstance(o, dict) and o.get("k") in ("copy", "move"):
            rd(b, o["place"]["l"])
    for b, blk in enumerate(blocks):
        for s in blk["stmts"]:
            if s["k"] == "assign":
                rv = s["rv"]
                for o in _rv_operands(rv):
                    rd_op(b, o)
                if "place" in rv and isinstance(rv["place"], dict):
                    rd(b, rv["place"]["l"])
                pl = s["place"]
                if pl["p"]:
                    rd(b, pl["l"])
                else:
                    kill[b].add(pl["l"])
            elif s["k"] == "dead":
                kill[b].add(s["l"])
        t = blk["term"]
        k = t["k"]
        if k == "switch":
            rd_op(b, t["discr"])
        elif k == "call":
            for a in t["args"]:
                rd_op(b, a)
            if t["callee"].get("kind") == "indirect":
                rd_op(b, t["callee"].get("op"))
            d = t.get("dest")
            if d is not None:
                if d["p"]:
                    rd(b, d["l"])
                else:
                    kill[b].add(d["l"])
        elif k == "assert":
            rd_op(b, t["cond"])
        elif k == "drop":
            rd(b, t["place"]["l"])
        elif k == "return":
            rd(b, 0)
    succ = [succs(blk["term"], include_unwind=False) for blk in blocks]
    lin = [set() for _ in range(n)]
    changed = True
    while changed:
        changed = False
        for b in range(n - 1, -1, -1):
            out = set()
            for s in succ[b]:
                out |= lin[s]
            new = use[b] | (out - kill[b])
            if new != lin[b]:
                lin[b] = new
                changed = True
    cache[fnkey] = lin
    return lin


# ------------------------------------------------------------------ generic-iteration probe
def state_fingerprint(I, st, top_uid, live, skip_locals, temps0):
    fp = []
    for fr in st.frames:
        if fr.native is not None:
            fp.append(("native", fr.fnkey))
            continue
        if fr.uid == top_uid:
            fp.append((fr.fnkey, fr.bb, tuple(sorted((l, vkey(v)) for l, v in fr.locals.items() if l in live and l not in skip_locals))))
        else:
            fp.append((fr.fnkey, fr.bb, tuple(sorted((l, vkey(v)) for l, v in fr.locals.items()))))
    temps = mget(st, "temps")
    fp.append(tuple(sorted((t, vkey(temps[t])) for t in temps0 if t in temps)))
    fp.append(tuple(sorted(mget(st, "seqs").items())))
    fp.append(tuple(sorted((g, (a, tuple(sorted(al)), s)) for g, (a, al, s) in mget(st, "segs").items())))
    fp.append(tuple(sorted((k, repr(v)) for k, v in mget(st, "strs").items())))
    fp.append(tuple(sorted((e, (a, tuple(sorted(al)))) for e, (a, al) in mget(st, "combos").items() if e in temps0)))
    fp.append(tuple(sorted((repr(k), v) for k, v in st.bounds.items())))
    return tuple(fp)


def probe(I, st, dest, target, value, skip_locals, new_elems=()):
    """Run the code from the return of the current call (yielding `value`) until the same call site is reached again, on scratch copies, following
    every fork.  Returns the list of end states.  Raises Undecided when the body does anything but come back with unchanged state."""
    fr = st.frames[-1]
    uid, call_bb, depth = fr.uid, fr.bb, len(st.frames)
    sc0 = st.copy()
    sc0.meta["in_probe"] = True
    f0 = sc0.frames[-1]
    if dest is not None:
        I.store_place(sc0, f0, dest, value)
    if target is None:
        raise Undecided("probe of a diverging call")
    f0.bb = target
    live = live_in(I, fr.fnkey)[call_bb]
    temps0 = set(mget(st, "temps")) - set(new_elems)
    fp0 = state_fingerprint(I, st, uid, live, skip_locals, temps0)
    work = [sc0]
    ends = []
    total = 0
    while work:
        sc = work.pop()
        while True:
            total += 1
            if total > 600:
                raise Undecided("generic iteration does not come back to the loop head")
            top = sc.frames[-1]
            if len(sc.frames) == depth and top.uid == uid and top.bb == call_bb and top.native is None:
                if state_fingerprint(I, sc, uid, live, skip_locals, temps0) != fp0:
                    raise Undecided("a loop over a summarised run changes state other than the output")
                ends.append(sc)
                break
            if len(sc.frames) < depth:
                raise Undecided("the body of a loop over a summarised run leaves the function")
            snap = sc.copy()
            try:
                t = I.run_block(sc)
            except Fork as f:
                for label, fn in f.options:
                    s2 = snap.copy()
                    try:
                        fn(s2)
                        s2.propagate()
                    except Infeasible:
                        continue
                    work.append(s2)
                break
            except Infeasible:
                break
            if t is not None:
                raise Undecided("the body of a loop over a summarised run returns from the function")
    if not ends:
        raise Undecided("generic iteration has no feasible path")
    return ends


def iter_place(I, st, arg):
    r = I.force(st, arg)
    if not isinstance(r, VRef):
        raise Undecided("iterator not passed by reference")
    return r


# ------------------------------------------------------------------ model registration helpers
def wrap(names, fn):
    """Register `fn` in front of the existing models of `names`: fn returns NotImplemented to fall through."""
    for n in names:
        prev = MODELS.get(n)

        def m(I, st, args, c, dest, target, span, prev=prev, n=n):
            r = fn(I, st, args, c, dest, target, span)
            if r is not NotImplemented:
                return r
            if prev is None:
                raise Undecided("unmodelled callee %s (no sequence/string argument)" % n)
            return prev(I, st, args, c, dest, target, span)
        MODELS[n] = m


def is_mut_callee(c):
    p = c.get("path", "") or ""
    return "_mut" in p or "Mut" in p


# ---- Vec / slice
def m_vec_new(I, st, args, c, dest, target, span):
    if not st.meta.get("pp"):
        return NotImplemented
    return VPy("seqvec", new_seq(st))


wrap(["alloc::vec::Vec::<T>::new", "alloc::vec::Vec::<T>::with_capacity"], m_vec_new)


def m_push(I, st, args, c, dest, target, span):
    items, sid = seq_items(I, st, args[0])
    if sid is None:
        return NotImplemented
    v = I.force(st, args[1])
    if not isinstance(v, VStruct):
        raise Undecided("push of %r onto an abstract sequence" % (v,))
    root = st.new_temp(v)
    mset(st, "seqs", sid, items + (("e", root[1]),))
    return UNIT


wrap(["alloc::vec::Vec::<T, A>::push"], m_push)


def m_pop(I, st, args, c, dest, target, span):
    items, sid = seq_items(I, st, args[0])
    if sid is None:
        return NotImplemented
    if not items:
        return none()
    last = items[-1]
    if last[0] == "g":
        fork_materialise_end(I, st, last[1], True)
    mset(st, "seqs", sid, items[:-1])
    return some(mget(st, "temps")[last[1]])


wrap(["alloc::vec::Vec::<T, A>::pop"], m_pop)


def m_len(I, st, args, c, dest, target, span):
    items, sid = seq_items(I, st, args[0])
    if items is None:
        return NotImplemented
    return VInt(items_len(st, items), 64, False)


wrap(["alloc::vec::Vec::<T, A>::len", "core::slice::<impl [T]>::len"], m_len)


def m_is_empty(I, st, args, c, dest, target, span):
    items, sid = seq_items(I, st, args[0])
    if items is None:
        return NotImplemented
    return VBool(I.cmp(st, items_len(st, items), Lin(0), "Eq"))


wrap(["alloc::vec::Vec::<T, A>::is_empty", "core::slice::<impl [T]>::is_empty"], m_is_empty)


def m_deref(I, st, args, c, dest, target, span):
    items, sid = seq_items(I, st, args[0])
    if items is None:
        return NotImplemented
    return VPy("slice", items)


wrap(["<alloc::vec::Vec<T, A> as core::ops::deref::Deref>::deref", "<alloc::vec::Vec<T, A> as core::ops::deref::DerefMut>::deref_mut",
      "alloc::vec::Vec::<T, A>::as_slice", "alloc::vec::Vec::<T, A>::as_mut_slice"], m_deref)


def m_last(I, st, args, c, dest, target, span):
    items, sid = seq_items(I, st, args[0])
    if items is None:
        return NotImplemented
    first = c.get("path", "").rsplit("::", 1)[-1].startswith("first")
    if not items:
        return none()
    it = items[0] if first else items[-1]
    if it[0] == "g":
        fork_materialise_end(I, st, it[1], not first)
    return some(VRef(("temp", it[1]), (), is_mut_callee(c)))


wrap(["core::slice::<impl [T]>::last", "core::slice::<impl [T]>::last_mut", "core::slice::<impl [T]>::first", "core::slice::<impl [T]>::first_mut"], m_last)


def m_split_last(I, st, args, c, dest, target, span):
    items, sid = seq_items(I, st, args[0])
    if items is None:
        return NotImplemented
    first = "split_first" in c.get("path", "")
    if not items:
        return none()
    it = items[0] if first else items[-1]
    if it[0] == "g":
        fork_materialise_end(I, st, it[1], not first)
    rest = items[1:] if first else items[:-1]
    return some(VTuple((VRef(("temp", it[1]), (), is_mut_callee(c)), VPy("slice", rest))))


wrap(["core::slice::<impl [T]>::split_last", "core::slice::<impl [T]>::split_first", "core::slice::<impl [T]>::split_last_mut", "core::slice::<impl [T]>::split_first_mut"], m_split_last)


def prefix_index(I, st, items, t):
    """Index j such that the items before j hold exactly t elements, or None."""
    pos = Lin(0)
    for j in range(len(items) + 1):
        if lin_eq(pos, t):
            return j
        if j < len(items):
            pos = lin_combine(pos, item_len(st, items[j]), 1)
    return None


def cut_at(I, st, items, t, what, span):
    j = prefix_index(I, st, items, t)
    if j is not None:
        return j
    total = items_len(st, items)
    if I.cmp(st, total, t, "Lt"):
        raise Panic("bounds", "%s out of range for a sequence" % what, span)
    raise Undecided("%s %r falls inside a summarised run of the sequence" % (what, t))


def m_index(I, st, args, c, dest, target, span):
    items, sid = seq_items(I, st, args[0])
    if items is None:
        return NotImplemented
    i = I.force(st, args[1])
    if isinstance(i, VInt):
        j = prefix_index(I, st, items, i.t)
        if j is not None and j < len(items):
            if items[j][0] == "g":
                fork_materialise_end(I, st, items[j][1], False)
            return VRef(("temp", items[j][1]), (), is_mut_callee(c))
        total = items_len(st, items)
        if not I.cmp(st, i.t, total, "Lt"):
            raise Panic("bounds", "index out of bounds", span)
        raise Undecided("index %r falls inside a summarised run of the sequence" % (i.t,))
    if isinstance(i, VStruct):
        short = i.adt.rsplit("::", 1)[-1]
        lo, hi = 0, len(items)
        if short in ("RangeTo", "Range"):
            e = I.force(st, i.get("end"))
            hi = cut_at(I, st, items, e.t, "range end", span)
        if short in ("RangeFrom", "Range"):
            s_ = I.force(st, i.get("start"))
            lo = cut_at(I, st, items, s_.t, "range start", span)
        if short in ("RangeTo", "RangeFrom", "Range", "RangeFull"):
            if lo > hi:
                raise Panic("bounds", "slice index starts after its end", span)
            return VPy("slice", items[lo:hi])
    raise Undecided("sequence index by %r" % (i,))


wrap(["<alloc::vec::Vec<T, A> as core::ops::index::Index<I>>::index", "<alloc::vec::Vec<T, A> as core::ops::index::IndexMut<I>>::index_mut",
      "core::slice::index::<impl core::ops::index::Index<I> for [T]>::index", "core::slice::index::<impl core::ops::index::IndexMut<I> for [T]>::index_mut"], m_index)


def m_get(I, st, args, c, dest, target, span):
    items, sid = seq_items(I, st, args[0])
    if items is None:
        return NotImplemented
    i = I.force(st, args[1])
    if isinstance(i, VInt):
        j = prefix_index(I, st, items, i.t)
        if j is not None and j < len(items):
            if items[j][0] == "g":
                fork_materialise_end(I, st, items[j][1], False)
            return some(VRef(("temp", items[j][1]), (), is_mut_callee(c)))
        if not I.cmp(st, i.t, items_len(st, items), "Lt"):
            return none()
    raise Undecided("sequence get by %r" % (i,))


wrap(["core::slice::<impl [T]>::get", "core::slice::<impl [T]>::get_mut"], m_get)


# ---- iterators over sequences
def m_iter(I, st, args, c, dest, target, span):
    items, sid = seq_items(I, st, args[0])
    if items is None:
        return NotImplemented
    return VPy("iter", (items, False))


wrap(["core::slice::<impl [T]>::iter", "core::slice::<impl [T]>::iter_mut", "core::slice::iter::<impl core::iter::traits::collect::IntoIterator for &'a [T]>::into_iter",
      "core::slice::iter::<impl core::iter::traits::collect::IntoIterator for &'a mut [T]>::into_iter",
      "<&'a alloc::vec::Vec<T, A> as core::iter::traits::collect::IntoIterator>::into_iter", "<&'a mut alloc::vec::Vec<T, A> as core::iter::traits::collect::IntoIterator>::into_iter"], m_iter)


def as_iter(I, st, v):
    v = I.force(st, v)
    while isinstance(v, VRef):
        v = I.force(st, I.load(st, v.root, v.path))
    if isinstance(v, VPy) and v.tag in ("iter", "takewhile", "range"):
        return v
    return None


def m_rev(I, st, args, c, dest, target, span):
    it = as_iter(I, st, args[0])
    if it is None or it.tag != "iter":
        return NotImplemented
    items, rev = it.data
    return VPy("iter", (tuple(reversed(check_items(st, items, rev))), not rev))


SLICE_ITER = "<core::slice::iter::Iter<'a, T> as core::iter::traits::iterator::Iterator>::"
wrap(["core::iter::traits::iterator::Iterator::rev", SLICE_ITER + "rev"], m_rev)


def m_take_while(I, st, args, c, dest, target, span):
    it = as_iter(I, st, args[0])
    if it is None or it.tag != "iter":
        return NotImplemented
    return VPy("takewhile", (it, I.force(st, args[1])))


wrap(["core::iter::traits::iterator::Iterator::take_while", SLICE_ITER + "take_while"], m_take_while)


def m_count(I, st, args, c, dest, target, span):
    it = as_iter(I, st, args[0])
    if it is None:
        return NotImplemented
    if it.tag == "iter":
        return VInt(items_len(st, check_items(st, it.data[0], it.data[1])), 64, False)
    if it.tag == "takewhile":
        inner, pred = it.data
        items, rev = inner.data
        j, cnt = scan(I, st, check_items(st, items, rev), pred, False, rev, by_ref=2)
        return VInt(cnt, 64, False)
    raise Undecided("count of %r" % (it,))


wrap(["core::iter::traits::iterator::Iterator::count", SLICE_ITER + "count", "<core::iter::adapters::take_while::TakeWhile<I, P> as core::iter::traits::iterator::Iterator>::count"], m_count)


def m_position(I, st, args, c, dest, target, span):
    it = as_iter(I, st, args[0])
    if it is None or it.tag != "iter":
        return NotImplemented
    items, rev = it.data
    items = check_items(st, items, rev)
    pred = I.force(st, args[1])
    back = c.get("path", "").endswith("rposition")
    order = tuple(reversed(items)) if back else items
    j, cnt = scan(I, st, order, pred, True, rev != back, by_ref=1)
    if j is None:
        return none()
    if not back:
        return some(VInt(cnt, 64, False))
    total = items_len(st, items)
    return some(VInt(lin_combine(lin_combine(total, cnt, -1), Lin(1), -1), 64, False))


wrap(["core::iter::traits::iterator::Iterator::position", "core::iter::traits::iterator::Iterator::rposition", SLICE_ITER + "position", SLICE_ITER + "rposition"], m_position)


def m_iter_next(I, st, args, c, dest, target, span):
    r = iter_place(I, st, args[0])
    it = as_iter(I, st, r)
    if it is None:
        return NotImplemented
    if it.tag == "range":
        return range_next(I, st, r, it, dest, target, span)
    if it.tag != "iter":
        raise Undecided("next() on %r" % (it,))
    items, rev = it.data
    items = check_items(st, items, rev)
    back = c.get("path", "").endswith("next_back")
    while items:
        head = items[-1] if back else items[0]
        rest = items[:-1] if back else items[1:]
        if head[0] == "e":
            I.store(st, r.root, r.path, VPy("iter", (rest, rev)))
            return some(VRef(("temp", head[1]), (), False))
        gid = head[1]
        if st.meta.get("in_probe"):
            raise Undecided("nested loop over a summarised run")
        adt, allowed, sym = mget(st, "segs")[gid]
        # generic iteration: one fresh element of the segment
        I.store(st, r.root, r.path, VPy("iter", (rest, rev)))
        gtid = new_elem(I, st, adt, allowed)
        skip = {r.root[2]} if r.root[0] == "local" else set()
        ends = probe(I, st, dest, target, some(VRef(("temp", gtid), (), False)), skip, new_elems=(gtid,))
        out0 = len(st.meta.get("out", ()))
        table = {}
        for e in ends:
            al = mget(e, "combos")[gtid][1]
            delta = normalise_atoms(e.meta.get("out", ())[out0:])
            for cmb in al:
                if cmb in table and table[cmb] != delta:
                    raise Undecided("generic iteration is not a function of the element")
                table[cmb] = delta
        if set(table) != set(allowed):
            raise Undecided("generic iteration does not cover every allowed element")
        if any(a[0] not in ("lit",) for d in table.values() for a in d):
            raise Undecided("generic iteration emits non-constant output")
        emit(I, st, [("mapseg", gid, tuple(sorted((cmb, d) for cmb, d in table.items())))])
        items = rest
    I.store(st, r.root, r.path, VPy("iter", ((), rev)))
    return none()


wrap(["<core::slice::iter::Iter<'a, T> as core::iter::traits::iterator::Iterator>::next", "<core::slice::iter::IterMut<'a, T> as core::iter::traits::iterator::Iterator>::next",
      "<core::iter::adapters::rev::Rev<I> as core::iter::traits::iterator::Iterator>::next",
      "<core::slice::iter::Iter<'a, T> as core::iter::traits::double_ended::DoubleEndedIterator>::next_back"], m_iter_next)


# ---- integer ranges with a symbolic bound
RANGE = "core::ops::range::Range"


def m_range_next(I, st, args, c, dest, target, span):
    r = iter_place(I, st, args[0])
    v = I.force(st, I.load(st, r.root, r.path))
    if not (isinstance(v, VStruct) and v.adt == RANGE):
        return NotImplemented
    a, b = I.force(st, v.get("start")), I.force(st, v.get("end"))
    if not (isinstance(a, VInt) and isinstance(b, VInt)):
        raise Undecided("Range::next on %r" % (v,))
    d = lin_combine(b.t, a.t, -1)
    if d.is_const():
        if d.c <= 0:
            return none()
        I.store(st, r.root, r.path, v.with_field("start", VInt(a.t.add_const(1), a.bits, a.signed)))
        return some(a)
    if not st.meta.get("pp"):
        return NotImplemented
    if st.meta.get("in_probe"):
        raise Undecided("nested loop with a symbolic trip count")
    lo, hi = st.term_bounds(d)
    if lo is None or lo < 0:
        # the trip count max(0, end - start): a negative difference needs a case split we do not make
        if not I.cmp(st, a.t, b.t, "Le"):
            return none()
    # generic iteration with an index i in [start, end)
    isym = ("ri", fresh(st, "i"))
    st.bounds[isym] = (0, BIG)
    I.store(st, r.root, r.path, v.with_field("start", b))
    skip = {r.root[2]} if r.root[0] == "local" else set()
    ends = probe(I, st, dest, target, some(VInt(Lin(0, isym, 1), a.bits, a.signed)), skip)
    out0 = len(st.meta.get("out", ()))
    deltas = {normalise_atoms(e.meta.get("out", ())[out0:]) for e in ends}
    if len(deltas) != 1:
        raise Undecided("iterations of a counted loop differ")
    delta = next(iter(deltas))
    if "ri" in repr(delta) or any(a[0] != "lit" for a in delta):
        raise Undecided("output of a counted loop depends on the index")
    emit(I, st, [("rep", delta, d)])
    return none()


wrap(["core::iter::range::<impl core::iter::traits::iterator::Iterator for core::ops::range::Range<A>>::next"], m_range_next)


def range_next(I, st, r, it, dest, target, span):
    raise Undecided("range iterator value")


# ---- small integer helpers
@model("core::convert::num::<impl core::convert::From<bool> for usize>::from", "core::convert::num::<impl core::convert::From<bool> for u64>::from",
       "core::convert::num::<impl core::convert::From<bool> for u32>::from", "core::convert::num::<impl core::convert::From<bool> for u8>::from",
       "core::convert::num::<impl core::convert::From<bool> for i32>::from", "core::convert::num::<impl core::convert::From<bool> for isize>::from")
def m_from_bool(I, st, args, c, dest, target, span):
    b = I.force(st, args[0])
    if not isinstance(b, VBool):
        raise Undecided("From<bool> of %r" % (b,))
    return VInt(Lin(1 if b.b else 0), 64, False)


@model("core::cmp::Ord::min", "core::cmp::min", "core::cmp::Ord::max", "core::cmp::max", "core::num::<impl usize>::min", "core::num::<impl usize>::max")
def m_min_max(I, st, args, c, dest, target, span):
    a, b = I.force(st, args[0]), I.force(st, args[1])
    if not (isinstance(a, VInt) and isinstance(b, VInt)):
        raise Undecided("min/max of %r, %r" % (a, b))
    is_min = c.get("path", "").endswith("min")
    a_le_b = I.cmp(st, a.t, b.t, "Le")
    return (a if a_le_b else b) if is_min else (b if a_le_b else a)


@model("core::num::<impl usize>::saturating_sub")
def m_saturating_sub(I, st, args, c, dest, target, span):
    a, b = I.force(st, args[0]), I.force(st, args[1])
    if I.cmp(st, a.t, b.t, "Lt"):
        return VInt(Lin(0), 64, False)
    return VInt(lin_combine(a.t, b.t, -1), 64, False)


# ---- strings
def m_str_is_empty(I, st, args, c, dest, target, span):
    parts = str_parts(I, st, args[0])
    if parts is None:
        return NotImplemented
    for p in parts:
        if p[0] in ("nl",) or (p[0] == "lit" and p[1]) or (p[0] == "txt" and st.bounds.get(("slen", p[1]), (0, 0))[0] >= 1):
            return VBool(False)
    for p in parts:
        if p[0] == "any":
            fork_any(I, st, p[1])
    for p in parts:
        if p[0] == "txt":
            return VBool(I.cmp(st, Lin(0, ("slen", p[1]), 1), Lin(0), "Eq"))
    return VBool(True)


wrap(["core::str::<impl str>::is_empty"], m_str_is_empty)


def m_str_len(I, st, args, c, dest, target, span):
    parts = str_parts(I, st, args[0])
    if parts is None:
        return NotImplemented
    return VInt(parts_len(st, parts), 64, False)


wrap(["core::str::<impl str>::len"], m_str_len)


def m_str_find(I, st, args, c, dest, target, span):
    parts = str_parts(I, st, args[0])
    if parts is None:
        return NotImplemented
    pat = I.force(st, args[1])
    if not (isinstance(pat, VInt) and pat.t.is_const() and pat.t.c == 10):
        raise Undecided("str::find with a pattern other than the line-break character")
    pos = Lin(0)
    for p in parts:
        if p[0] == "nl":
            return some(VInt(pos, 64, False))
        if p[0] == "lit":
            i = p[1].find("\n")
            if i >= 0:
                return some(VInt(lin_combine(pos, Lin(len(p[1][:i].encode())), 1), 64, False))
        if p[0] == "any":
            fork_any(I, st, p[1])
        pos = lin_combine(pos, part_len(st, p), 1)
    return none()


wrap(["core::str::<impl str>::find"], m_str_find)


def split_parts(I, st, parts, t, span):
    """(before, after) with len(before) == t, splitting literal parts when needed."""
    pos = Lin(0)
    for j in range(len(parts) + 1):
        if lin_eq(pos, t):
            return parts[:j], parts[j:]
        if j < len(parts):
            p = parts[j]
            if p[0] == "lit":
                d = lin_combine(t, pos, -1)
                n = len(p[1].encode())
                if d.is_const() and 0 < d.c < n:
                    b = p[1].encode()
                    try:
                        return parts[:j] + (("lit", b[:d.c].decode()),), (("lit", b[d.c:].decode()),) + parts[j + 1:]
                    except UnicodeDecodeError:
                        raise Panic("str", "byte index is not a char boundary", span)
            pos = lin_combine(pos, part_len(st, p), 1)
    total = parts_len(st, parts)
    if I.cmp(st, total, t, "Lt"):
        raise Panic("str", "byte index out of range of a string", span)
    raise Undecided("string index %r is not at a known boundary" % (t,))


def m_str_index(I, st, args, c, dest, target, span):
    parts = str_parts(I, st, args[0])
    if parts is None:
        return NotImplemented
    i = I.force(st, args[1])
    if isinstance(i, VStruct):
        short = i.adt.rsplit("::", 1)[-1]
        if short == "RangeTo":
            a, b = split_parts(I, st, parts, I.force(st, i.get("end")).t, span)
            return mk_str(a)
        if short == "RangeFrom":
            a, b = split_parts(I, st, parts, I.force(st, i.get("start")).t, span)
            return mk_str(b)
        if short == "Range":
            a, b = split_parts(I, st, parts, I.force(st, i.get("end")).t, span)
            a1, a2 = split_parts(I, st, a, I.force(st, i.get("start")).t, span)
            return mk_str(a2)
        if short == "RangeFull":
            return mk_str(parts)
    raise Undecided("string index by %r" % (i,))


wrap(["core::str::traits::<impl core::ops::index::Index<I> for str>::index"], m_str_index)


def m_split_at(I, st, args, c, dest, target, span):
    parts = str_parts(I, st, args[0])
    if parts is None:
        return NotImplemented
    a, b = split_parts(I, st, parts, I.force(st, args[1]).t, span)
    return VTuple((mk_str(a), mk_str(b)))


wrap(["core::str::<impl str>::split_at"], m_split_at)


def is_nl_pattern(I, st, v):
    v = I.force(st, v)
    return isinstance(v, VInt) and v.t.is_const() and v.t.c == 10


def m_str_contains(I, st, args, c, dest, target, span):
    parts = str_parts(I, st, args[0])
    if parts is None:
        return NotImplemented
    if not is_nl_pattern(I, st, args[1]):
        raise Undecided("str::contains with a pattern other than the line-break character")
    for p in parts:
        if p[0] == "nl" or (p[0] == "lit" and "\n" in p[1]):
            return VBool(True)
        if p[0] == "any":
            fork_any(I, st, p[1])
    return VBool(False)


wrap(["core::str::<impl str>::contains"], m_str_contains)


def m_split_inclusive(I, st, args, c, dest, target, span):
    parts = str_parts(I, st, args[0])
    if parts is None:
        return NotImplemented
    if not is_nl_pattern(I, st, args[1]):
        raise Undecided("split_inclusive with a pattern other than the line-break character")
    return VPy("splitinc", parts)


wrap(["core::str::<impl str>::split_inclusive"], m_split_inclusive)


def m_splitinc_next(I, st, args, c, dest, target, span):
    r = iter_place(I, st, args[0])
    v = I.force(st, I.load(st, r.root, r.path))
    if not (isinstance(v, VPy) and v.tag == "splitinc"):
        return NotImplemented
    parts = norm_parts(st, v.data)
    if not parts:
        return none()
    out = []
    for j, p in enumerate(parts):
        if p[0] == "any":
            fork_any(I, st, p[1])
        if p[0] == "lit" and "\n" in p[1]:
            i = p[1].index("\n") + 1
            out.append(("lit", p[1][:i]))
            rest = ((("lit", p[1][i:]),) if p[1][i:] else ()) + tuple(parts[j + 1:])
            I.store(st, r.root, r.path, VPy("splitinc", rest))
            return some(mk_str(tuple(out)))
        out.append(p)
        if p[0] == "nl":
            I.store(st, r.root, r.path, VPy("splitinc", tuple(parts[j + 1:])))
            return some(mk_str(tuple(out)))
    # no line break left: the last piece (non-empty by construction unless all texts are empty)
    if I.cmp(st, parts_len(st, tuple(out)), Lin(0), "Eq"):
        I.store(st, r.root, r.path, VPy("splitinc", ()))
        return none()
    I.store(st, r.root, r.path, VPy("splitinc", ()))
    return some(mk_str(tuple(out)))


wrap(["<core::str::iter::SplitInclusive<'a, P> as core::iter::traits::iterator::Iterator>::next"], m_splitinc_next)


def m_str_ends_with(I, st, args, c, dest, target, span):
    parts = str_parts(I, st, args[0])
    if parts is None:
        return NotImplemented
    if not is_nl_pattern(I, st, args[1]):
        raise Undecided("ends_with/starts_with with a pattern other than the line-break character")
    starts = c.get("path", "").endswith("starts_with")
    if not parts:
        return VBool(False)
    p = parts[0] if starts else parts[-1]
    if p[0] == "nl":
        return VBool(True)
    if p[0] == "lit":
        return VBool(p[1].startswith("\n") if starts else p[1].endswith("\n"))
    if p[0] == "txt":
        lo = st.bounds.get(("slen", p[1]), (0, 0))[0]
        if lo >= 1:
            return VBool(False)
        if I.cmp(st, Lin(0, ("slen", p[1]), 1), Lin(0), "Eq"):
            # an empty text: look at the neighbour
            rest = parts[1:] if starts else parts[:-1]
            return m_str_ends_with(I, st, [mk_str(rest), args[1]], c, dest, target, span)
        return VBool(False)
    if starts:
        fork_any(I, st, p[1])
    fork_any_suffix(I, st, p[1])


def fork_any_suffix(I, st, aid):
    """Decide how an arbitrary string ends: empty | ... line break | ... text (non-empty, without a line break)."""
    def empty(s):
        mset(s, "strs", aid, ())

    def ends_nl(s):
        r = fresh(s, "r")
        s.bounds[("slen", "any:" + r)] = (0, BIG)
        mset(s, "strs", aid, (("any", r), ("nl",)))

    def ends_text(s):
        r = fresh(s, "r")
        s.bounds[("slen", "any:" + r)] = (0, BIG)
        t = fresh(s, "t")
        s.bounds[("slen", t)] = (1, BIG)
        mset(s, "strs", aid, (("any", r), ("txt", t, 1)))
    raise Fork([("%s is empty" % aid, empty), ("%s ends with a line break" % aid, ends_nl), ("%s ends with text" % aid, ends_text)], "how string %s ends" % aid)


wrap(["core::str::<impl str>::ends_with", "core::str::<impl str>::starts_with"], m_str_ends_with)


# ---- the output sink
def m_sink_write_str(I, st, args, c, dest, target, span):
    if not st.meta.get("pp"):
        return NotImplemented
    f = I.force(st, args[0])
    parts = str_parts(I, st, args[1])
    if parts is None:
        raise Undecided("write_str of %r" % (args[1],))
    emit(I, st, str_atoms(parts))
    return ok(UNIT)


wrap(["core::fmt::Formatter::<'a>::write_str", "<core::fmt::Formatter<'_> as core::fmt::Write>::write_str"], m_sink_write_str)


def m_sink_write_char(I, st, args, c, dest, target, span):
    if not st.meta.get("pp"):
        return NotImplemented
    ch = I.force(st, args[1])
    if isinstance(ch, VInt) and ch.t.is_const():
        emit(I, st, [("lit", chr(ch.t.c))])
        return ok(UNIT)
    if isinstance(ch, VInt) and ch.t.sym is not None and ch.t.k == 1 and ch.t.c == 0 and ch.t.sym[0] == "ch":
        emit(I, st, [("chr", ch.t.sym[1] if len(ch.t.sym) > 1 else "c")])
        return ok(UNIT)
    raise Undecided("write_char of %r" % (ch,))


wrap(["<core::fmt::Formatter<'_> as core::fmt::Write>::write_char", "core::fmt::Formatter::<'a>::write_char"], m_sink_write_char)


# ---- formatting machinery as events (driver analysis): which payload is formatted, through which trait, with which template
def payload_node(I, st, v):
    v = I.force(st, v)
    guard = 0
    while isinstance(v, VRef) and guard < 4:
        if v.root[0] == "node" and v.path and v.path[0][1] == "data":
            return v.root[1]
        v = I.force(st, I.load(st, v.root, v.path))
        guard += 1
    if isinstance(v, VOpaque) and v.tag == "payload":
        return v.id
    return None


def m_fmt_argument(I, st, args, c, dest, target, span):
    if not st.meta.get("pp"):
        return NotImplemented
    kind = c.get("path", "").rsplit("::", 1)[-1].replace("new_", "")
    n = payload_node(I, st, args[0])
    return VPy("fmtarg", (kind, n if n is not None else repr(I.force(st, args[0]))))


wrap(["core::fmt::rt::Argument::<'_>::new_display", "core::fmt::rt::Argument::<'_>::new_debug"], m_fmt_argument)


def m_fmt_arguments(I, st, args, c, dest, target, span):
    if not st.meta.get("pp"):
        return NotImplemented
    tpl = I.force(st, args[0])
    arr = I.force(st, args[1]) if len(args) > 1 else UNIT
    guard = 0
    while isinstance(arr, VRef) and guard < 4:
        arr = I.force(st, I.load(st, arr.root, arr.path))
        guard += 1
    items = tuple(arr.items) if isinstance(arr, VTuple) else ()
    return VPy("fmtargs", (repr(tpl), tuple(x.data if isinstance(x, VPy) and x.tag == "fmtarg" else ("?", repr(x)) for x in items)))


wrap(["core::fmt::Arguments::<'a>::new", "core::fmt::Arguments::<'a>::new_v1", "core::fmt::Arguments::<'a>::new_v1_formatted"], m_fmt_arguments)


def m_write_fmt(I, st, args, c, dest, target, span):
    if not st.meta.get("pp"):
        return NotImplemented
    a = I.force(st, args[1])
    if not (isinstance(a, VPy) and a.tag == "fmtargs"):
        raise Undecided("write_fmt of %r" % (a,))
    tpl, items = a.data
    for (kind, n) in items:
        st.events.append(("format", kind, n, tpl))
    return ok(UNIT)


wrap(["core::fmt::Write::write_fmt"], m_write_fmt)


def m_alternate(I, st, args, c, dest, target, span):
    if not st.meta.get("pp") or "alternate" not in st.meta:
        return NotImplemented
    return VBool(bool(st.meta["alternate"]))


wrap(["core::fmt::Formatter::<'a>::alternate"], m_alternate)


# ------------------------------------------------------------------ trace normal form
def normalise_atoms(atoms):
    """Merge adjacent literals; expand nothing."""
    out = []
    for a in atoms:
        if a[0] == "lit":
            if not a[1]:
                continue
            if out and out[-1][0] == "lit":
                out[-1] = ("lit", out[-1][1] + a[1])
                continue
        out.append(a)
    return tuple(out)
