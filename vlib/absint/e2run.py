"""E2 orchestration: entries, argument-validity cases, terminal records, on-disk cache, parallel execution."""
import hashlib, json, os, time, traceback
from concurrent.futures import ProcessPoolExecutor
from .values import *
from .state import *
from .interp import Interp, Terminal
from . import driver, spec, models
from .. import facts

NID = "crate::id::NodeId::"
BINARY = {
    "checked_append": "append", "checked_prepend": "prepend",
    "checked_insert_after": "insert_after", "checked_insert_before": "insert_before",
    "append": "append", "prepend": "prepend", "insert_after": "insert_after", "insert_before": "insert_before",
}
SELF_ERR = {"append": "AppendSelf", "prepend": "PrependSelf", "insert_after": "InsertAfterSelf", "insert_before": "InsertBeforeSelf"}


def src_hash():
    h = hashlib.sha256()
    d = os.path.dirname(os.path.abspath(__file__))
    for f in sorted(os.listdir(d)):
        if f.endswith(".py"):
            h.update(open(os.path.join(d, f), "rb").read())
    return h.hexdigest()[:12]


def binary_cases():
    """(label, builder) for the argument-validity cases V of op(x, n)."""
    out = []
    for alias in (True, False):
        if alias:
            for live in (True, False):
                out.append(("x==n %s" % ("live" if live else "removed"), ("alias", live)))
        else:
            for lx in (True, False):
                for ln in (True, False):
                    out.append(("x %s, n %s" % ("live" if lx else "removed", "live" if ln else "removed"), ("distinct", lx, ln)))
    return out


def run_entry(profile, features, entry, repo=None):
    """Explore one entry point.  Returns dict(records=[...], stats={...})."""
    prog = facts.load(profile, features, repo=repo)
    I = Interp(prog)
    t0 = time.time()
    records = []
    if entry in BINARY:
        key = NID + entry
        for label, case in binary_cases():
            st = State()
            if case[0] == "alias":
                x = st.new_node(case[1], "arg:self")
                n = x
            else:
                x = st.new_node(case[1], "arg:self")
                n = st.new_node(case[2], "arg:new")
            st.meta["args"] = (x, n)
            st.meta["case"] = label
            I.push_call(st, key, [driver.arg_id(st, x), driver.arg_id(st, n), driver.arena_ref()], None, None)
            I.explore([st], lambda t, e=entry: records.append(binary_record(I, e, t)))
    elif entry in ("detach", "remove", "remove_subtree"):
        for live in (True,):
            st = State()
            x = st.new_node(live, "arg:self")
            st.meta["args"] = (x,)
            st.meta["case"] = "x live"
            I.push_call(st, NID + entry, [driver.arg_id(st, x), driver.arena_ref()], None, None)
            I.explore([st], lambda t, e=entry: records.append(unary_record(I, e, t)))
    elif entry == "append_value":
        for live in (True, False):
            st = State()
            x = st.new_node(live, "arg:self")
            st.meta["args"] = (x,)
            st.meta["case"] = "x live" if live else "x removed"
            I.push_call(st, NID + entry, [driver.arg_id(st, x), VOpaque("payload", "new"), driver.arena_ref()], None, None)
            I.explore([st], lambda t, e=entry: records.append(unary_record(I, e, t)))
    elif entry == "new_node":
        st = State()
        st.meta["args"] = ()
        st.meta["case"] = "any arena"
        I.push_call(st, "crate::arena::Arena<T>::new_node", [driver.arena_ref(), VOpaque("payload", "new")], None, None)
        I.explore([st], lambda t, e=entry: records.append(alloc_record(I, e, t)))
    else:
        raise ValueError("unknown entry " + entry)
    stats = {"entry": entry, "profile": profile, "terminals": len(records), "blocks": I.blocks_run, "statements": I.stmts_run,
             "forks": I.forks, "functions": sorted(I.fn_seen), "wall_s": round(time.time() - t0, 2)}
    return {"records": records, "stats": stats}


def base_record(I, entry, t):
    st = t.st
    view = spec.View(I, st)
    rec = {"entry": entry, "case": st.meta.get("case"), "exit": t.kind, "value": repr(t.value) if t.value is not None else None,
           "msg": t.msg, "at": I.prog.loc(t.span) if t.span else None}
    if t.kind == "undecided":
        rec["decisions"] = list(st.decisions)
        rec["frames"] = [f.fnkey for f in st.frames]
        return rec, view
    rec["J"] = spec.check_J(view)
    rec["J3"] = spec.j3_obligations(view)
    rec["overlay"] = [(a, str(b), str(c)) for a, b, c in spec.overlay(view)]
    rec["decisions"] = list(st.decisions)
    rec["heap"] = driver.heap_table(st)
    rec["writes"] = [e for e in st.events if e[0] in ("write", "write-arena", "push", "clear")][:40]
    rec["summaries"] = [list(map(str, s)) for s in st.meta.get("summaries", ())]
    if t.kind == "panic":
        rec["frames"] = [f.fnkey for f in st.frames]
    return rec, view


def binary_record(I, entry, t):
    rec, view = base_record(I, entry, t)
    st = t.st
    x, n = st.meta["args"]
    op = BINARY[entry]
    rec["op"] = op
    if t.kind == "undecided":
        return rec
    # classify the pre-state by the specification table (first row that applies)
    if x == n:
        cls = "self"
    elif not st.nodes[x].live0 or not st.nodes[n].live0:
        cls = "removed"
    else:
        q = st.anc_query(n, x)
        if q is None:
            def yes(s):
                s.anc[(n, x)] = True
            def no(s):
                s.anc[(n, x)] = False
            raise Fork([("anc(n,x)", yes), ("!anc(n,x)", no)], "classify: is n an ancestor of x")
        cls = "ancestor" if q else "possible"
    rec["class"] = cls
    rec["shape"] = shape_of(view, st, x, n)
    if cls == "possible":
        m = spec.Model(view)
        m.op(op, x, n)
        rec["model_diff"] = [(a, str(b), str(c)) for a, b, c in m.diff()]
        rec["model_touched"] = len(m.M)
    return rec


def unary_record(I, entry, t):
    rec, view = base_record(I, entry, t)
    st = t.st
    (x,) = st.meta["args"]
    rec["op"] = entry
    if t.kind == "undecided":
        return rec
    rec["class"] = "possible" if st.nodes[x].live0 else "removed"
    rec["shape"] = shape_of(view, st, x, None)
    if entry == "append_value" and st.nodes[x].live0 and t.kind == "return":
        k = st.node_of_id(t.value)
        m = spec.Model(view)
        if k is None:
            rec["model_diff"] = [("returned id", "a node of the arena", repr(t.value))]
        else:
            m.place(k, x, m.get(x, "last_child"), None)
            for f in ("first_child", "last_child"):
                m.set(k, f, None)
            rec["model_diff"] = [(a, str(b), str(c)) for a, b, c in m.diff()]
            rec["model_touched"] = len(m.M)
            rec["returned"] = k
    if entry == "detach" and st.nodes[x].live0:
        m = spec.Model(view)
        m.op("detach", x)
        rec["model_diff"] = [(a, str(b), str(c)) for a, b, c in m.diff()]
        rec["model_touched"] = len(m.M)
    return rec


def alloc_record(I, entry, t):
    rec, view = base_record(I, entry, t)
    rec["op"] = entry
    rec["class"] = "possible"
    if t.kind != "undecided":
        rec["shape"] = shape_of(view, t.st, None, None)
        rec["freelist"] = freelist_shape(t.st)
        if t.kind == "return":
            k = t.st.node_of_id(t.value)
            rec["returned"] = k
            rec["returned_links"] = [view.post(k, f) for f in LINKS] if k else None
    return rec


def freelist_shape(st):
    out = {"first0": repr(st.arena_h0.get("first_free_slot")), "last0": repr(st.arena_h0.get("last_free_slot")),
           "first": repr(st.arena_cur.get("first_free_slot")), "last": repr(st.arena_cur.get("last_free_slot")),
           "len": repr(st.len), "members": sorted(st.meta.get("freelist", ()))}
    return out


def shape_of(view, st, x, n):
    """Canonical description of the materialised pre-state neighbourhood (for de-duplication and reports)."""
    names = {x: "x"} if x is not None else {}
    if n is not None and n != x:
        names[n] = "n"
    parts = []
    for k in sorted(st.nodes):
        r = st.nodes[k]
        if r.fresh:
            continue
        nm = names.get(k, k)
        for f in LINKS:
            if f in r.h0:
                tgt = st.h0_link(k, f)
                parts.append("%s.%s=%s" % (nm, f[:4], names.get(tgt, tgt)))
    for (a, b), v in sorted(st.anc.items()):
        if a in names and b in names:
            parts.append("%sanc(%s,%s)" % ("" if v else "!", names[a], names[b]))
    return " ".join(parts)


# ---------------------------------------------------------------------- cache + parallel
def _job(args):
    profile, features, entry, repo = args
    try:
        return entry, run_entry(profile, features, entry, repo)
    except Exception:
        return entry, {"error": traceback.format_exc()}


def run_entries(profile, features, entries, repo=None, workers=None):
    """Run (or load from the cache) the E2 exploration of the given entries.  Returns {entry: result}."""
    d, info = facts.export(profile, features, repo)
    sh = src_hash()
    out = {}
    todo = []
    for e in entries:
        p = os.path.join(d, "e2-%s-%s.json" % (sh, e))
        if os.path.exists(p):
            try:
                out[e] = json.load(open(p))
                out[e]["cache"] = "hit"
                continue
            except ValueError:
                pass
        todo.append(e)
    if todo:
        w = workers or min(16, len(todo))
        if w > 1 and len(todo) > 1:
            with ProcessPoolExecutor(max_workers=w) as ex:
                results = list(ex.map(_job, [(profile, features, e, repo) for e in todo]))
        else:
            results = [_job((profile, features, e, repo)) for e in todo]
        for e, r in results:
            r["cache"] = "miss"
            out[e] = r
            if "error" not in r:
                p = os.path.join(d, "e2-%s-%s.json" % (sh, e))
                tmp = p + ".tmp%d" % os.getpid()
                with open(tmp, "w") as fh:
                    json.dump(r, fh)
                os.replace(tmp, p)
    return out
