"""E2 orchestration: entries, argument-validity cases, terminal records, on-disk cache, parallel execution."""
import hashlib, json, os, time, traceback
from concurrent.futures import ProcessPoolExecutor
from .values import *
from .state import *
from .interp import Interp, Terminal
from . import driver, spec, models
from .. import facts

NID = "crate::id::NodeId::"
BINARY = {
    "checked_append": "append", "checked_prepend": "prepend",
    "checked_insert_after": "insert_after", "checked_insert_before": "insert_before",
    "append": "append", "prepend": "prepend", "insert_after": "insert_after", "insert_before": "insert_before",
}
SELF_ERR = {"append": "AppendSelf", "prepend": "PrependSelf", "insert_after": "InsertAfterSelf", "insert_before": "InsertBeforeSelf"}


def src_hash():
    h = hashlib.sha256()
    d = os.path.dirname(os.path.abspath(__file__))
    for f in sorted(os.listdir(d)):
        if f.endswith(".py"):
            h.update(open(os.path.join(d, f), "rb").read())
    for extra in ("facts.py", "rules.py", "cfg.py"):          # what the interpreter sees also depends on how the facts are loaded
        h.update(open(os.path.join(os.path.dirname(d), extra), "rb").read())
    return h.hexdigest()[:12]


def binary_cases():
    """(label, builder) for the argument-validity cases V of op(x, n)."""
    out = []
    forms = {True: ["live"], False: ["removed", "removed(id as reported by get_node_id)"]}
    for alias in (True, False):
        if alias:
            for live in (True, False):
                for f in forms[live]:
                    out.append(("x==n %s" % f, ("alias", live, f)))
        else:
            for lx in (True, False):
                for ln in (True, False):
                    for fx in forms[lx]:
                        for fn in forms[ln]:
                            out.append(("x %s, n %s" % (fx, fn), ("distinct", lx, ln, fx, fn)))
    return out


def run_entry(profile, features, entry, repo=None):
    """Explore one entry point.  Returns dict(records=[...], stats={...})."""
    prog = facts.load(profile, features, repo=repo)
    I = Interp(prog)
    t0 = time.time()
    records = []
    if entry in BINARY:
        key = NID + entry
        for label, case in binary_cases():
            st = State()
            forms = {}
            if case[0] == "alias":
                x = st.new_node(case[1], "arg:self")
                n = x
                if "reported" in case[2]:
                    forms[x] = "reported"
            else:
                x = st.new_node(case[1], "arg:self")
                n = st.new_node(case[2], "arg:new")
                if "reported" in case[3]:
                    forms[x] = "reported"
                if "reported" in case[4]:
                    forms[n] = "reported"
            st.meta["removed_id_form"] = forms
            st.meta["args"] = (x, n)
            st.meta["case"] = label
            I.push_call(st, key, [driver.arg_id(st, x), driver.arg_id(st, n), driver.arena_ref()], None, None)
            I.explore([st], lambda t, e=entry: records.append(binary_record(I, e, t)))
    elif entry == "remove_subtree":
        records.extend(loop_entry(I, entry))
    elif entry == "stamp":
        records.extend(stamp_entry(I))
    elif entry == "ppconst":
        records.extend(ppconst_entry(I))
    elif entry == "ppstep":
        from . import ppstep
        records.extend(ppstep.ppstep_entry(I))
    elif entry == "ctor":
        records.extend(ctor_entry(I))
    elif entry == "access":
        records.extend(access_entry(I))
    elif entry == "iters":
        from . import itertables
        records.extend(itertables.iters_entry(I))
    elif entry in ("free_node", "clear"):
        records.extend(freelist_entry(I, entry))
    elif entry in ("detach", "remove"):
        for live in (True,):
            st = State()
            x = st.new_node(live, "arg:self")
            st.meta["args"] = (x,)
            st.meta["case"] = "x live"
            I.push_call(st, NID + entry, [driver.arg_id(st, x), driver.arena_ref()], None, None)
            I.explore([st], lambda t, e=entry: records.append(unary_record(I, e, t)))
    elif entry == "append_value":
        for live, form in ((True, "live"), (False, "removed"), (False, "removed(id as reported by get_node_id)")):
            st = State()
            x = st.new_node(live, "arg:self")
            st.meta["args"] = (x,)
            st.meta["case"] = "x " + form
            st.meta["removed_id_form"] = {x: "reported"} if "reported" in form else {}
            I.push_call(st, NID + entry, [driver.arg_id(st, x), VOpaque("payload", "new"), driver.arena_ref()], None, None)
            I.explore([st], lambda t, e=entry: records.append(unary_record(I, e, t)))
    elif entry == "append_alloc":
        # the allocation half of append_value, recorded like new_node's (used when append_value does not allocate through new_node)
        st = State()
        x = st.new_node(True, "arg:self")
        st.meta["args"] = (x,)
        st.meta["case"] = "x live"
        I.push_call(st, NID + "append_value", [driver.arg_id(st, x), VOpaque("payload", "new"), driver.arena_ref()], None, None)
        I.explore([st], lambda t, e=entry: records.append(freelist_record(I, e, t, x)))
    elif entry == "new_node":
        st = State()
        st.meta["args"] = ()
        st.meta["case"] = "any arena"
        I.push_call(st, "crate::arena::Arena<T>::new_node", [driver.arena_ref(), VOpaque("payload", "new")], None, None)
        I.explore([st], lambda t, e=entry: records.append(freelist_record(I, e, t)))
    else:
        raise ValueError("unknown entry " + entry)
    stats = {"entry": entry, "profile": profile, "terminals": len(records), "blocks": I.blocks_run, "statements": I.stmts_run,
             "forks": I.forks, "functions": sorted(I.fn_seen), "wall_s": round(time.time() - t0, 2)}
    return {"records": records, "stats": stats}


STK = "crate::id::NodeStamp::"


def _stage(I, states, fnkey, mkargs, keep):
    """Run `fnkey` from each state (fresh frame stack); returns [(state, terminal kind, value, msg)]."""
    out = []
    for st in states:
        s = st.copy()
        s.frames = []
        s.steps = 0
        I.push_call(s, fnkey, mkargs(s), None, None)
        I.explore([s], lambda t: out.append((t.st, t.kind, t.value, t.msg)))
    return out


def stamp_roles(prog):
    """The private helpers of the generation counter, found by role (signature + position in the call graph), not by name:
    removed  = the `&mut self` method of the stamp type reachable from Arena::free_node
    reuse    = the `&mut self` method reachable from Arena::new_node but not from free_node
    reuseable = the `self -> bool` method reachable from free_node
    is_removed = the `self -> bool` method reachable from Node::is_removed"""
    from .. import rules
    idx = rules.Index(prog)
    meths = []
    for k, f in prog.fns.items():
        if k.startswith(STK) and "mir" in f and not f.get("impl_derived") and not f.get("impl_trait_path") and "{closure" not in k:
            mir = f["mir"]
            if mir["arg_count"] < 1:
                continue
            a1 = prog.tys(mir["locals"][1]["ty"])
            ret = prog.tys(mir["locals"][0]["ty"])
            meths.append((k, a1, ret, mir["arg_count"]))
    free_cone = idx.reachable([rules.free_node_key(prog)])
    new_cone = idx.reachable(["crate::arena::Arena<T>::new_node"])
    isrem_cone = idx.reachable(["crate::node::Node<T>::is_removed"])
    cand = {
        # a transition either updates the stamp in place (`&mut self`) or maps the old stamp to the new one (`self -> NodeStamp`)
        "removed": [k for (k, a1, ret, n) in meths if (a1.startswith("&mut ") or (a1 == STAMP and ret == STAMP)) and n == 1 and k in free_cone],
        "reuse": [k for (k, a1, ret, n) in meths if (a1.startswith("&mut ") or (a1 == STAMP and ret == STAMP)) and n == 1 and k in new_cone and k not in free_cone],
        "reuseable": [k for (k, a1, ret, n) in meths if ret == "bool" and n == 1 and k in free_cone and k not in isrem_cone and not a1.startswith("&mut ")],
        "is_removed": [k for (k, a1, ret, n) in meths if ret == "bool" and n == 1 and k in isrem_cone],
    }
    roles = {}
    if not cand["reuseable"] and len(cand["removed"]) == 1 and [ret for (k, a1, ret, n) in meths if k == cand["removed"][0]] == ["bool"]:
        cand["reuseable"] = list(cand["removed"])        # the removal transition itself reports whether the slot may be handed out again
    for r, ks in cand.items():
        if len(ks) != 1:
            return None, "cannot identify the stamp helper for role `%s` (candidates: %s)" % (r, ks)
        roles[r] = ks[0]
    return roles, None


def stamp_entry(I):
    """C06: the generation arithmetic as piecewise-affine functions of the live stamp s in [0, MAX] (whole i16 range, symbolically)."""
    recs = []
    roles, why = stamp_roles(I.prog)
    if roles is None:
        return [{"entry": "stamp", "exit": "undecided", "msg": why, "s_range": [0, I16_MAX]}]
    recs.append({"entry": "stamp", "table": "roles", "roles": roles, "exit": "return"})
    sym = ("st", "s")
    st = State()
    st.bounds[sym] = (0, I16_MAX)
    slot = st.new_temp(VStruct(STAMP, (("0", VInt(Lin(0, sym, 1), 16, True)),)))

    def transition(states, key):
        """Apply a stamp transition to the slot: in place through `&mut self`, or by value (`self -> NodeStamp`, the caller stores the result)."""
        mir = I.prog.fns[key]["mir"]
        if I.prog.tys(mir["locals"][1]["ty"]).startswith("&mut "):
            return _stage(I, states, key, lambda s: [VRef(slot, (), True)], None)
        out = []
        for (s_, k_, v_, m_) in _stage(I, states, key, lambda s: [s.meta["temps"][slot[1]]], None):
            if k_ == "return":
                if not (isinstance(v_, VStruct) and v_.adt == STAMP):
                    out.append((s_, "undecided", v_, "the transition does not return a stamp"))
                    continue
                s_.meta["temps"] = dict(s_.meta.get("temps", {}))
                s_.meta["temps"][slot[1]] = v_
            out.append((s_, k_, v_, m_))
        return out

    a = transition([st], roles["removed"])
    for (s1, k1, v1, m1) in a:
        lo, hi = s1.bounds[sym]
        base = {"entry": "stamp", "s_range": [lo, hi], "as_removed_exit": k1, "msg": m1}
        if k1 != "return":
            base["exit"] = k1
            recs.append(base)
            continue
        removed = s1.meta["temps"][slot[1]].get("0")
        rlo, rhi = s1.term_bounds(removed.t)
        base["removed_term"] = repr(removed.t)
        base["removed_range"] = [rlo, rhi]
        if roles["reuseable"] == roles["removed"]:
            b = [(s1, "return" if isinstance(v1, VBool) else "undecided", v1, "the removal transition does not return a decided bool")]
        else:
            b = _stage(I, [s1], roles["reuseable"], lambda s: [s.meta["temps"][slot[1]]], None)
        for (s2, k2, v2, m2) in b:
            r2 = dict(base)
            r2["s_range"] = list(s2.bounds[sym])
            r2["reuseable_exit"] = k2
            if k2 != "return":
                r2["exit"] = k2
                r2["msg"] = m2
                recs.append(r2)
                continue
            r2["reuseable"] = v2.b
            if not v2.b:
                r2["exit"] = "retired"
                recs.append(r2)
                continue
            c = transition([s2], roles["reuse"])
            for (s3, k3, v3, m3) in c:
                r3 = dict(r2)
                r3["s_range"] = list(s3.bounds[sym])
                r3["reuse_exit"] = k3
                r3["exit"] = k3
                r3["msg"] = m3
                if k3 == "return":
                    reused = s3.meta["temps"][slot[1]].get("0")
                    r3["reused_term"] = repr(reused.t)
                    r3["reused_range"] = list(s3.term_bounds(reused.t))
                    ret = v3.get("0") if isinstance(v3, VStruct) else None
                    r3["returned_same"] = ret is not None and ret.t == reused.t
                    # reused - s over the range
                    d = I.add_terms(reused.t, Lin(0, sym, 1), -1)
                    r3["delta_range"] = list(s3.term_bounds(d))
                recs.append(r3)
    # is_removed decision table over the whole i16 range
    st = State()
    st.bounds[sym] = (I16_MIN, I16_MAX)
    val = VStruct(STAMP, (("0", VInt(Lin(0, sym, 1), 16, True)),))
    for (s1, k1, v1, m1) in _stage(I, [st], roles["is_removed"], lambda s: [val], None):
        recs.append({"entry": "stamp", "table": "NodeStamp::is_removed", "s_range": list(s1.bounds[sym]), "exit": k1,
                     "value": v1.b if k1 == "return" else None, "msg": m1})
    # Node::is_removed and NodeId::is_removed on the two V cases
    for live in (True, False):
        st = State()
        x = st.new_node(live, "arg:self")
        for (s1, k1, v1, m1) in _stage(I, [st], "crate::node::Node<T>::is_removed", lambda s: [VRef(("node", x), (), False)], None):
            recs.append({"entry": "stamp", "table": "Node::is_removed", "live": live, "exit": k1, "value": v1.b if k1 == "return" else None, "msg": m1})
        for (s1, k1, v1, m1) in _stage(I, [st], NID + "is_removed", lambda s: [driver.arg_id(s, x), driver.arena_ref(False)], None):
            recs.append({"entry": "stamp", "table": "NodeId::is_removed", "live": live, "exit": k1, "value": v1.b if k1 == "return" else None, "msg": m1})
    # a stale id of a recycled slot: slot stamp = any later generation (strictly larger), must read as removed
    st = State()
    x = st.new_node(True, "arg:self")
    old = ("ast", x)
    st.bounds[old] = (0, I16_MAX)
    idv = VStruct(NODEID, (("index1", VNonZero(Lin(1, ("idx", x), 1))), ("stamp", VStruct(STAMP, (("0", VInt(Lin(0, old, 1), 16, True)),)))))
    for (s1, k1, v1, m1) in _stage(I, [st], NID + "is_removed", lambda s: [idv, driver.arena_ref(False)], None):
        recs.append({"entry": "stamp", "table": "NodeId::is_removed(stale)", "exit": k1, "value": v1.b if k1 == "return" else None,
                     "cmp": [list(map(str, k)) for k, v in s1.cmp.items()], "msg": m1})
    return recs


def ppconst_entry(I):
    """C14(4): the indent strings as tables over (is_last_item, is_first_line)."""
    recs = []
    IBS = "crate::debug_pretty_print::IndentedBlockState"
    for last in (False, True):
        for first in (False, True):
            row = {"entry": "ppconst", "is_last_item": last, "is_first_line": first}
            for fn in ("as_str", "as_str_leading", "as_str_trailing_spaces", "is_all_whitespace"):
                st = State()
                val = VStruct(IBS, (("is_last_item", VBool(last)), ("is_first_line", VBool(first))))
                out = _stage(I, [st], IBS + "::" + fn, lambda s: [val], None)
                if len(out) == 1 and out[0][1] == "return":
                    v = out[0][2]
                    row[fn] = v.s if isinstance(v, VStr) else (v.b if isinstance(v, VBool) else repr(v))
                else:
                    row[fn] = {"undecided": [o[3] for o in out]}
            recs.append(row)
    return recs


def ctor_entry(I):
    """C13: constructors, clear and the capacity functions as values: every field of Arena is reported."""
    recs = []
    AR = "crate::arena::Arena<T>::"
    adt = I.prog.adts[ARENA]
    fields = [f["name"] for f in adt["variants"][0]["fields"]]

    def show(st, v):
        v = I.force(st, v)
        if isinstance(v, VVec):
            ln = st.meta.get("vecs", {}).get(v.id)
            return "Vec(len=%r)" % (ln,) if ln is not None else "Vec(%s)" % v.id
        return repr(v)
    for name, key, args in (("new", AR + "new", lambda s: []), ("default", "<crate::arena::Arena<T> as core::default::Default>::default", lambda s: []),
                            ("with_capacity", AR + "with_capacity", lambda s: [VInt(Lin(0, ("n",), 1), 64, False)])):
        st = State()
        st.bounds[("n",)] = (0, ISIZE_MAX)
        for (s1, k1, v1, m1) in _stage(I, [st], key, args, None):
            rec = {"entry": "ctor", "table": name, "exit": k1, "msg": m1, "adt_fields": fields}
            if k1 == "return" and isinstance(v1, VStruct):
                rec["fields"] = {n: show(s1, x) for n, x in v1.fields}
                rec["events"] = [list(map(str, e)) for e in s1.events]
            recs.append(rec)
    # clear from an arbitrary J-state: value of every field afterwards
    st = State()
    for (s1, k1, v1, m1) in _stage(I, [st], AR + "clear", lambda s: [driver.arena_ref()], None):
        rec = {"entry": "ctor", "table": "clear", "exit": k1, "msg": m1, "adt_fields": fields}
        if k1 == "return":
            fl = {}
            for n in fields:
                if n == "nodes":
                    fl[n] = "Vec(len=%r)" % (s1.len,)
                else:
                    v = I.read_arena(s1, n)
                    fl[n] = repr(v) if not isinstance(v, VLazy) else "unchanged(%s)" % n
            rec["fields"] = fl
            rec["events"] = [list(map(str, e)) for e in s1.events]
        recs.append(rec)
    for name in ("reserve", "capacity"):
        st = State()
        args = (lambda s: [driver.arena_ref(), VInt(Lin(0, ("k",), 1), 64, False)]) if name == "reserve" else (lambda s: [driver.arena_ref(False)])
        for (s1, k1, v1, m1) in _stage(I, [st], AR + name, args, None):
            recs.append({"entry": "ctor", "table": name, "exit": k1, "msg": m1, "value": repr(v1) if v1 is not None else None,
                         "events": [list(map(str, e)) for e in s1.events], "len_changed": s1.len != s1.len0,
                         "arena_writes": sorted(s1.arena_cur)})
    # Node::get / get_mut address the payload of the same node
    for name in ("get", "get_mut"):
        st = State()
        x = st.new_node(True, "arg:node")
        for (s1, k1, v1, m1) in _stage(I, [st], "crate::node::Node<T>::" + name, lambda s: [VRef(("node", x), (), name == "get_mut")], None):
            r = I.force(s1, v1) if k1 == "return" else None
            recs.append({"entry": "ctor", "table": "Node::" + name, "exit": k1, "msg": m1, "node": x,
                         "result": [r.root[1] if r.root[0] == "node" else str(r.root), [str(p[1]) for p in r.path]] if isinstance(r, VRef) else repr(r),
                         "writes": len([e for e in s1.events if e[0] == "write"])})
    return recs


def access_entry(I):
    """C11: lookup paths.  Argument cases: id of a live slot, id of a removed slot, id/position beyond the end; a node inside / outside the arena."""
    recs = []
    AR = "crate::arena::Arena<T>::"

    def oob_id(st):
        st.bounds[("oob",)] = (0, ISIZE_MAX)
        return VStruct(NODEID, (("index1", VNonZero(Lin(1, ("oob",), 1))), ("stamp", VStruct(STAMP, (("0", VInt(Lin(0), 16, True)),)))))

    def describe(view, v):
        st = view.st
        v = view.I.force(st, v)
        if isinstance(v, VEnum) and v.adt == OPTION:
            return None if v.variant == "None" else ["Some", describe(view, v.get("0"))]
        if isinstance(v, VRef) and v.root[0] == "node" and not v.path:
            return ["node", v.root[1]]
        if isinstance(v, VStruct) and v.adt == NODEID:
            n = st.node_of_id(v)
            try:
                same_stamp = n is not None and models.values_equal(view.I, st, v.get("stamp"), view.I.read_node_field(st, n, "stamp"))
            except Fork:
                # equal for some generations of the slot and different for others: not the slot's current id in general
                return ["id", n, "stamp equal only for some generations"]
            return ["id", n, "current-stamp" if same_stamp else "other-stamp"]
        if isinstance(v, VBool):
            return v.b
        if isinstance(v, VInt):
            return ["int", repr(v.t)]
        if isinstance(v, VNonZero):
            return ["nz", repr(v.t)]
        return repr(v)

    def go(table, case, key, st, args):
        for (s1, k1, v1, m1) in _stage(I, [st], key, args, None):
            view = spec.View(I, s1)
            rec = {"entry": "access", "table": table, "case": case, "exit": k1, "msg": m1}
            if k1 == "return":
                rec["result"] = describe(view, v1)
                rec["writes"] = len([e for e in s1.events if e[0] in ("write", "write-arena", "push", "clear")])
                rec["len0"] = list(s1.bounds.get(("len0",), (None, None)))
            recs.append(rec)

    for case in ("live", "removed", "oob"):
        st = State()
        if case == "oob":
            idf = lambda s: oob_id(s)
            x = None
        else:
            x = st.new_node(case == "live", "arg:id")
            idf = lambda s, x=x: driver.arg_id(s, x)
        go("Arena::get", [case, x], AR + "get", st, lambda s: [driver.arena_ref(False), idf(s)])
        go("Arena::get_mut", [case, x], AR + "get_mut", st, lambda s: [driver.arena_ref(True), idf(s)])
        go("Arena::index", [case, x], "<crate::arena::Arena<T> as core::ops::index::Index<crate::id::NodeId>>::index", st, lambda s: [driver.arena_ref(False), idf(s)])
        go("Arena::index_mut", [case, x], "<crate::arena::Arena<T> as core::ops::index::IndexMut<crate::id::NodeId>>::index_mut", st, lambda s: [driver.arena_ref(True), idf(s)])
        go("usize::from", [case, x], "<usize as core::convert::From<crate::id::NodeId>>::from", st, lambda s: [idf(s)])
        go("NonZeroUsize::from", [case, x], "<core::num::nonzero::NonZero<usize> as core::convert::From<crate::id::NodeId>>::from", st, lambda s: [idf(s)])
        # get_node_id_at(position of the id)
        go("Arena::get_node_id_at", [case, x], AR + "get_node_id_at", st, lambda s: [driver.arena_ref(False), idf(s).get("index1")])
    for case in ("live-slot", "removed-slot", "foreign"):
        st = State()
        if case == "foreign":
            ref = VRef(("foreign", "node of another arena"), (), False)
            x = None
        else:
            x = st.new_node(case == "live-slot", "arg:node")
            ref = VRef(("node", x), (), False)
        go("Arena::get_node_id", [case, x], AR + "get_node_id", st, lambda s: [driver.arena_ref(False), ref])
    st = State()
    go("Arena::count", ["any"], AR + "count", st, lambda s: [driver.arena_ref(False)])
    go("Arena::is_empty", ["any"], AR + "is_empty", st, lambda s: [driver.arena_ref(False)])
    return recs


def fl_view(I, st):
    """(pre, post) description of the *materialised / written* part of the free list (never unrolls the list)."""
    def tgt(v):
        if v is None:
            return "unk"
        if isinstance(v, VLazy):
            if v.n == "arena":
                if v.field not in st.arena_h0:
                    return "unk"
                v = st.arena_h0[v.field]
            else:
                if v.field not in st.nodes[v.n].h0:
                    return "unk"
                v = st.nodes[v.n].h0[v.field]
        if isinstance(v, VEnum) and v.variant == "None":
            return None
        t = v.get("0").t
        if t.sym and t.sym[0] == "idx" and t.c == 0:
            return t.sym[1]
        return models.slot_of_index(I, st, t)
    pre = {"first": tgt(st.arena_h0.get("first_free_slot")), "last": tgt(st.arena_h0.get("last_free_slot"))}
    post = {"first": tgt(I.read_arena(st, "first_free_slot")), "last": tgt(I.read_arena(st, "last_free_slot"))}
    pren, postn = {}, {}
    for k, r in st.nodes.items():
        if r.fresh or "data" in r.cur:
            d = r.cur.get("data")
            if isinstance(d, VEnum) and d.variant == "NextFree":
                postn[k] = tgt(d.get("0"))
        if not r.fresh and not r.live0 and "nextfree" in r.h0:
            pren[k] = tgt(r.h0["nextfree"])
    return pre, post, pren, postn


def freelist_record(I, entry, t, x=None):
    rec, view = base_record(I, entry, t)
    st = t.st
    rec["op"] = entry
    rec["class"] = "possible"
    if t.kind == "undecided":
        return rec
    pre, post, pren, postn = fl_view(I, st)
    rec["fl_pre"], rec["fl_post"], rec["fl_pre_next"], rec["fl_post_next"] = pre, post, pren, postn
    rec["len"] = [repr(st.len0), repr(st.len)]
    rec["x"] = x
    rec["returned"] = st.node_of_id(t.value) if t.kind == "return" and t.value is not None else None
    if x is not None:
        sx = view.stamp_term(x)
        rec["x_stamp_post"] = repr(sx)
        rec["x_stamp_from_slot"] = sx.sym in (None, ("st", x))
        rec["x_stamp_range"] = list(st.term_bounds(sx))
        rec["x_stamp_pre_range"] = list(st.bounds.get(("st", x), (None, None)))
    if rec["returned"] is not None:
        k = rec["returned"]
        # the id handed out must be the slot's *current* id (index and generation)
        rec["returned_id_is_current"] = bool(models.values_equal(I, st, t.value.get("stamp"), I.read_node_field(st, k, "stamp")))
        rec["returned_fresh"] = st.nodes[k].fresh
        rec["returned_stamp_range"] = list(st.term_bounds(view.stamp_term(k)))
        rec["returned_links"] = [view.post(k, f) for f in LINKS]
        rec["returned_data"] = view.post_raw(k, "data").variant
        if not st.nodes[k].fresh:
            rec["returned_prev_stamp_range"] = list(st.bounds.get(("st", k)))
            d = I.add_terms(view.stamp_term(k), Lin(0, ("st", k), 1), 1)      # new + old(removed, negative)  (= new - |old|)
            rec["returned_was_member"] = k in st.meta.get("freelist", ())
    rec["other_writes"] = [e for e in st.events if e[0] == "write" and e[1] not in (x, rec["returned"]) and e[2] != "data"][:10]
    rec["data_writes"] = [(e[1], e[3]) for e in st.events if e[0] == "write" and e[2] == "data"]
    rec["drops"] = [(e[1], e[2]) for e in st.events if e[0] == "drop-data"]
    rec["events"] = [e[0] for e in st.events if e[0] in ("push", "clear")]
    rec["shape"] = "first=%s last=%s next=%s" % (pre["first"], pre["last"], sorted(pren.items()))
    return rec


def freelist_entry(I, entry):
    records = []
    if entry == "free_node":
        st = State()
        x = st.new_node(True, "arg:freed")
        # precondition of the crate-internal free_node: the node has been unlinked (remove() does that first, see C04)
        for f in LINKS:
            st.set_h0_link(x, f, None)
        st.meta["case"] = "x live, unlinked"
        from .. import rules as _rules
        I.push_call(st, _rules.free_node_key(I.prog), [driver.arena_ref(), driver.arg_id(st, x)], None, None)
        I.explore([st], lambda t: records.append(freelist_record(I, entry, t, x)))
        # the same call through an id of an earlier generation of the slot (remove()/remove_subtree() act on whatever lives in the slot):
        # the new generation must still be derived from the slot's own stamp
        st = State()
        x = st.new_node(True, "arg:freed")
        for f in LINKS:
            st.set_h0_link(x, f, None)
        st.meta["case"] = "x live, unlinked, addressed through an id of an earlier generation"
        old = ("ast", x)
        st.bounds[old] = (0, I16_MAX)
        stale = VStruct(NODEID, (("index1", VNonZero(Lin(1, ("idx", x), 1))), ("stamp", VStruct(STAMP, (("0", VInt(Lin(0, old, 1), 16, True)),)))))
        I.push_call(st, _rules.free_node_key(I.prog), [driver.arena_ref(), stale], None, None)
        I.explore([st], lambda t: records.append(dict(freelist_record(I, entry, t, x), stale_id=True)))
    elif entry == "clear":
        st = State()
        st.meta["case"] = "any arena"
        I.push_call(st, "crate::arena::Arena<T>::clear", [driver.arena_ref()], None, None)
        I.explore([st], lambda t: records.append(freelist_record(I, entry, t)))
    return records


def loop_entry(I, entry):
    """Loop-invariant mode (DESIGN 5/C04): phase A = prefix up to the first arrival at the (single) loop head of the entry's own body;
    phase B = one generic iteration from a fresh J-state with a generic cursor; the written induction combines them."""
    from .interp import LoopHeadReached
    from .state import Frame
    key = NID + entry
    heads = sorted(I.loop_heads(key))
    records = []
    from ..cfg import CFG
    cfg = CFG(I.fns[key]["mir"])
    # the outermost loop carries the invariant; loops nested in it are handled by the ordinary loop summaries inside one iteration
    outer = [h for h in heads if all(h == o or cfg.dominates(h, o) for o in heads)]
    if len(outer) != 1:
        return [{"entry": entry, "phase": "setup", "exit": "undecided", "msg": "expected one outermost loop in %s, found %d loop heads %s" % (entry, len(heads), heads), "case": None}]
    head = outer[0]
    body = {b for b in cfg.reach if cfg.dominates(head, b) and head in cfg.reachable_from(b)} | {head}
    assigned = set()
    for b in body:
        blk = I.fns[key]["mir"]["blocks"][b]
        for s_ in blk["stmts"]:
            if s_["k"] == "assign" and not s_["place"]["p"]:
                assigned.add(s_["place"]["l"])
        t_ = blk["term"]
        if t_["k"] == "call" and t_.get("dest") is not None and not t_["dest"]["p"]:
            assigned.add(t_["dest"]["l"])
    # ---- phase A
    st = State()
    x = st.new_node(True, "arg:self")
    st.meta["args"] = (x,)
    st.meta["case"] = "prefix (x live)"
    I.push_call(st, key, [driver.arg_id(st, x), driver.arena_ref()], None, None)
    st.meta["stop_at"] = (st.frames[-1].uid, head)
    st.meta["stop_armed"] = True
    prefix_locals = []

    def on_a(t):
        rec = unary_record(I, "detach", t) if t.kind == "loophead" else unary_record(I, entry, t)
        rec["entry"] = entry
        rec["phase"] = "prefix"
        rec["op"] = "prefix"
        if t.kind == "loophead":
            rec["exit"] = "loophead"
            fr = t.st.frames[-1]
            cur = [l for l, v in fr.locals.items() if l in assigned and
                   ((isinstance(v, VEnum) and v.adt == OPTION and v.variant == "Some" and t.st.node_of_id(v.get("0")) == x) or
                    (isinstance(v, VStruct) and v.adt == NODEID and t.st.node_of_id(v) == x))]
            # MIR often keeps a second copy of the cursor in a temporary that is dead at the head: keep the user variable (lowest index)
            rec["cursor_locals"] = cur
            prefix_locals.append((cur, {l: v for l, v in fr.locals.items()}))
        records.append(rec)
    I.explore([st], on_a, stop_kind="loophead")
    if not prefix_locals:
        return records
    cur_locals = prefix_locals[0][0]
    live_head = None
    try:
        from . import ppmodels
        live_head = ppmodels.live_in(I, key)[head]
    except Exception:
        live_head = None
    if live_head is not None:
        cur_locals = [l for l in cur_locals if l in live_head]
        prefix_locals = [([l for l in p[0] if l in live_head], p[1]) for p in prefix_locals]
    if len(cur_locals) != 1 or any(p[0] != cur_locals for p in prefix_locals):
        records.append({"entry": entry, "phase": "setup", "exit": "undecided", "msg": "cannot identify the loop cursor of %s (candidates %s)" % (entry, cur_locals), "case": None})
        return records
    cl = cur_locals[0]
    base_locals = prefix_locals[0][1]
    cur_is_option = isinstance(base_locals[cl], VEnum)
    # ---- phase B: generic iteration
    for alias in (True, False):
        st = State()
        x = st.new_node(True, "arg:self")
        st.set_h0_link(x, "parent", None)          # invariant: x stays detached (established by phase A, no write re-attaches it)
        st.set_h0_link(x, "previous_sibling", None)
        st.set_h0_link(x, "next_sibling", None)
        if alias:
            m = x
        else:
            m = st.new_node(True, "generic cursor")
            st.anc[(x, m)] = True                  # invariant: the cursor is inside the subtree of x
        st.propagate()
        st.meta["args"] = (m,)
        st.meta["root"] = x
        st.meta["case"] = "iteration, cursor %s" % ("== x" if alias else "a proper descendant of x")
        st.frame_counter += 1
        locs = {}
        for l, v in base_locals.items():
            locs[l] = v      # ids of x are identical in both states (same individual name and symbols)
        locs[cl] = some(st.id_of(m)) if cur_is_option else st.id_of(m)
        st.frames.append(Frame(st.frame_counter, key, locs, head, None, None, None, None))
        st.meta["stop_at"] = (st.frames[-1].uid, head)
        st.meta["stop_armed"] = False

        def on_b(t, alias=alias):
            rec = iteration_record(I, entry, t, cl)
            records.append(rec)
        I.explore([st], on_b, stop_kind="loophead")
    # ---- phase C: exit with an exhausted cursor (Option cursors only; a NodeId cursor leaves the loop from inside an iteration)
    if not cur_is_option:
        return records
    st = State()
    # the step obligations let the cursor run out only once x itself has been freed (C04 subtree-step: `root_freed`), so x is a removed slot at the exit
    x = st.new_node(False, "arg:self")
    st.meta["args"] = (x,)
    st.meta["root"] = x
    st.meta["case"] = "exit, cursor None (x already freed)"
    st.frame_counter += 1
    locs = dict(base_locals)
    locs[cl] = none()
    st.frames.append(Frame(st.frame_counter, key, locs, head, None, None, None, None))
    st.meta["stop_at"] = (st.frames[-1].uid, head)
    st.meta["stop_armed"] = False

    def on_c(t):
        rec, view = base_record(I, entry, t)
        rec["phase"] = "exit"
        rec["op"] = "exit"
        rec["class"] = "possible"
        if t.kind == "loophead":
            rec["exit"] = "loophead"
        records.append(rec)
    I.explore([st], on_c, stop_kind="loophead")
    return records


def iteration_record(I, entry, t, cl):
    rec, view = base_record(I, entry, t)
    st = t.st
    (m,) = st.meta["args"]
    x = st.meta["root"]
    rec["phase"] = "iteration"
    rec["op"] = "iteration"
    rec["class"] = "possible"
    rec["x"] = m
    if t.kind == "undecided":
        return rec
    if t.kind == "loophead":
        rec["exit"] = "loophead"
        fr = st.frames[-1]
        cv = fr.locals.get(cl)
        if isinstance(cv, VStruct) and cv.adt == NODEID:
            nc = st.node_of_id(cv) or ("bad", repr(cv))
        else:
            nc = view.decode(cv) if cl in fr.locals else ("bad", "cursor unset")
        rec["next_cursor"] = nc if not isinstance(nc, tuple) else str(nc)
    rec["shape"] = shape_of(view, st, m, x if x != m else None)
    rec["freed"] = [k for k, r in st.nodes.items() if not r.fresh and r.live0 and "stamp" in r.cur and not view.live_post(k)]
    rec["pre_first_child"] = view.pre(m, "first_child")
    rec["pre_parent"] = view.pre(m, "parent")
    rec["cursor_is_root"] = (m == x)
    wrote = bool(rec.get("overlay"))
    freed = rec["freed"]
    if wrote:
        mm = spec.Model(view)
        for f in (freed or [m]):
            mm.op("remove", f)
        rec["model_diff"] = [(a, str(b), str(c)) for a, b, c in mm.diff()]
    else:
        rec["model_diff"] = []
    # the general form of the step obligations (any loop shape): what was freed lies below the cursor, the next cursor stays inside the subtree of x,
    # every iteration makes progress, and the loop is left only after x itself was freed
    rec["freed_below_cursor"] = all(f == m or st.anc_query(m, f) is True for f in freed)
    nc = rec.get("next_cursor")
    if t.kind == "loophead":
        isnode = isinstance(nc, str) and nc in st.nodes
        rec["next_in_subtree"] = bool(isnode and (nc == x or st.anc_query(x, nc) is True))
        rec["next_is_live"] = bool(isnode and nc not in freed)
        rec["progress"] = bool(freed) or bool(isnode and st.anc_query(m, nc) is True)
    rec["root_freed"] = x in freed
    return rec


def base_record(I, entry, t):
    st = t.st
    view = spec.View(I, st)
    rec = {"entry": entry, "case": st.meta.get("case"), "exit": t.kind, "value": repr(t.value) if t.value is not None else None,
           "msg": t.msg, "at": I.prog.loc(t.span) if t.span else None}
    if t.kind == "undecided":
        rec["decisions"] = list(st.decisions)
        rec["frames"] = [f.fnkey for f in st.frames]
        return rec, view
    rec["J"] = spec.check_J(view)
    rec["J3"] = spec.j3_obligations(view)
    rec["overlay"] = [(a, str(b), str(c)) for a, b, c in spec.overlay(view)]
    rec["decisions"] = list(st.decisions)
    rec["heap"] = driver.heap_table(st)
    rec["writes"] = [e for e in st.events if e[0] in ("write", "write-arena", "push", "clear")][:40]
    rec["summaries"] = [list(map(str, s)) for s in st.meta.get("summaries", ())]
    rec["payload_writes"] = sorted({(e[1], e[2], e[4]) for e in st.events if e[0] == "write" and e[2] in ("data", "stamp")})
    rec["payload_drops"] = [(e[1], e[2]) for e in st.events if e[0] == "drop-data"]
    if t.kind == "panic":
        rec["frames"] = [f.fnkey for f in st.frames]
    return rec, view


def binary_record(I, entry, t):
    rec, view = base_record(I, entry, t)
    st = t.st
    x, n = st.meta["args"]
    op = BINARY[entry]
    rec["op"] = op
    if t.kind == "undecided":
        return rec
    # classify the pre-state by the specification table (first row that applies)
    if x == n:
        cls = "self"
    elif not st.nodes[x].live0 or not st.nodes[n].live0:
        cls = "removed"
    else:
        q = st.anc_query(n, x)
        if q is None:
            def yes(s):
                s.anc[(n, x)] = True
            def no(s):
                s.anc[(n, x)] = False
            raise Fork([("anc(n,x)", yes), ("!anc(n,x)", no)], "classify: is n an ancestor of x")
        cls = "ancestor" if q else "possible"
    rec["class"] = cls
    rec["shape"] = shape_of(view, st, x, n)
    if cls == "possible":
        m = spec.Model(view)
        m.op(op, x, n)
        rec["model_diff"] = [(a, str(b), str(c)) for a, b, c in m.diff()]
        rec["model_touched"] = len(m.M)
    return rec


def unary_record(I, entry, t):
    rec, view = base_record(I, entry, t)
    st = t.st
    (x,) = st.meta["args"]
    rec["op"] = entry
    if t.kind == "undecided":
        return rec
    rec["class"] = "possible" if st.nodes[x].live0 else "removed"
    rec["x"] = x
    rec["freed"] = [k for k, r in st.nodes.items() if not r.fresh and r.live0 and "stamp" in r.cur and not view.live_post(k)]
    rec["shape"] = shape_of(view, st, x, None)
    if entry == "append_value" and st.nodes[x].live0 and t.kind == "return":
        k = st.node_of_id(t.value)
        m = spec.Model(view)
        if k is None:
            rec["model_diff"] = [("returned id", "a node of the arena", repr(t.value))]
        else:
            m.place(k, x, m.get(x, "last_child"), None)
            for f in ("first_child", "last_child"):
                m.set(k, f, None)
            rec["model_diff"] = [(a, str(b), str(c)) for a, b, c in m.diff()]
            rec["model_touched"] = len(m.M)
            rec["returned"] = k
            rec["returned_id_is_current"] = bool(models.values_equal(I, st, t.value.get("stamp"), I.read_node_field(st, k, "stamp")))
    if entry in ("detach", "remove") and st.nodes[x].live0 and t.kind in ("return", "loophead"):
        m = spec.Model(view)
        m.op(entry, x)
        rec["model_diff"] = [(a, str(b), str(c)) for a, b, c in m.diff()]
        rec["model_touched"] = len(m.M)
    if entry == "remove_subtree" and st.nodes[x].live0 and t.kind == "return":
        # a path that finishes without entering the loop: it must have done the whole job, which is possible only for a leaf (detach, then remove the node itself)
        rec["pre_first_child"] = view.pre(x, "first_child")
        m = spec.Model(view)
        m.op("detach", x)
        m.op("remove", x)
        rec["model_diff"] = [(a, str(b), str(c)) for a, b, c in m.diff()]
        rec["model_touched"] = len(m.M)
    return rec


def alloc_record(I, entry, t):
    rec, view = base_record(I, entry, t)
    rec["op"] = entry
    rec["class"] = "possible"
    if t.kind != "undecided":
        rec["shape"] = shape_of(view, t.st, None, None)
        rec["freelist"] = freelist_shape(t.st)
        if t.kind == "return":
            k = t.st.node_of_id(t.value)
            rec["returned"] = k
            rec["returned_links"] = [view.post(k, f) for f in LINKS] if k else None
    return rec


def freelist_shape(st):
    out = {"first0": repr(st.arena_h0.get("first_free_slot")), "last0": repr(st.arena_h0.get("last_free_slot")),
           "first": repr(st.arena_cur.get("first_free_slot")), "last": repr(st.arena_cur.get("last_free_slot")),
           "len": repr(st.len), "members": sorted(st.meta.get("freelist", ()))}
    return out


def shape_of(view, st, x, n):
    """Canonical description of the materialised pre-state neighbourhood (for de-duplication and reports)."""
    names = {x: "x"} if x is not None else {}
    if n is not None and n != x:
        names[n] = "n"
    parts = []
    for k in sorted(st.nodes):
        r = st.nodes[k]
        if r.fresh:
            continue
        nm = names.get(k, k)
        for f in LINKS:
            if f in r.h0:
                tgt = st.h0_link(k, f)
                parts.append("%s.%s=%s" % (nm, f[:4], names.get(tgt, tgt)))
    for (a, b), v in sorted(st.anc.items()):
        if a in names and b in names:
            parts.append("%sanc(%s,%s)" % ("" if v else "!", names[a], names[b]))
    return " ".join(parts)


# ---------------------------------------------------------------------- cache + parallel
def _job(args):
    profile, features, entry, repo = args
    try:
        return entry, run_entry(profile, features, entry, repo)
    except Exception:
        return entry, {"error": traceback.format_exc()}


def run_entries(profile, features, entries, repo=None, workers=None):
    """Run (or load from the cache) the E2 exploration of the given entries.  Returns {entry: result}."""
    d, info = facts.export(profile, features, repo)
    sh = src_hash()
    out = {}
    todo = []
    for e in entries:
        p = os.path.join(d, "e2-%s-%s.json" % (sh, e))
        if os.path.exists(p):
            try:
                out[e] = json.load(open(p))
                out[e]["cache"] = "hit"
                continue
            except ValueError:
                pass
        todo.append(e)
    if todo:
        w = workers or min(16, len(todo))
        if w > 1 and len(todo) > 1:
            with ProcessPoolExecutor(max_workers=w) as ex:
                results = list(ex.map(_job, [(profile, features, e, repo) for e in todo]))
        else:
            results = [_job((profile, features, e, repo)) for e in todo]
        for e, r in results:
            r = json.loads(json.dumps(r, default=str))      # same shape as a cache hit (tuples -> lists)
            r["cache"] = "miss"
            out[e] = r
            if "error" not in r:
                p = os.path.join(d, "e2-%s-%s.json" % (sh, e))
                tmp = p + ".tmp%d" % os.getpid()
                with open(tmp, "w") as fh:
                    json.dump(r, fh)
                os.replace(tmp, p)
    return out
