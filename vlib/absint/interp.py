"""Small-step abstract interpreter over exported MIR (E2 core)."""
import os
from .values import *
from .state import *
from . import models
from .loops import QWrite


def lin_parts(t):
    """Lin -> ({sym: k}, const), expanding multi-symbol terms ('sum', ((sym, k), ...))."""
    d = {}
    if t.sym is not None:
        if t.sym[0] == "sum":
            for (s, k) in t.sym[1]:
                d[s] = d.get(s, 0) + k * t.k
        else:
            d[t.sym] = t.k
    return d, t.c


def lin_build(d, c):
    d = {s: k for s, k in d.items() if k != 0}
    if not d:
        return Lin(c)
    if len(d) == 1:
        (s, k), = d.items()
        return Lin(c, s, k)
    return Lin(c, ("sum", tuple(sorted(d.items(), key=repr))), 1)


def lin_combine(a, b, sign=1):
    da, ca = lin_parts(a)
    db, cb = lin_parts(b)
    for s, k in db.items():
        da[s] = da.get(s, 0) + sign * k
    return lin_build(da, ca + sign * cb)


class LoopHeadReached(Exception):
    pass


class Terminal:
    def __init__(self, kind, st, value=None, msg=None, span=None):
        self.kind = kind          # 'return' | 'panic' | 'undecided'
        self.st = st
        self.value = value
        self.msg = msg
        self.span = span


class Interp:
    MAX_STEPS = 3000
    MAX_BUDGET_FAILS = 12
    MAX_TERMINALS = 8000

    def __init__(self, prog):
        self.prog = prog
        self.fns = dict(prog.fns)
        self.fns.update(getattr(prog, "ext", {}))
        self.ext_used = set()
        self.blocks_run = 0
        self.stmts_run = 0
        self.forks = 0
        self.fn_seen = set()
        # trait-impl index: (trait path, method, self adt path) -> fn key
        self.impl_index = {}
        for k, f in prog.fns.items():
            if f.get("impl_trait_path") and "impl_self_ty" in f:
                t = prog.ty(f["impl_self_ty"])
                sp = t.get("path") or t.get("s")
                self.impl_index[(f["impl_trait_path"], k.rsplit("::", 1)[-1], sp)] = k

    # ------------------------------------------------------------------ exploration
    def explore(self, init_states, on_terminal, stop_kind=None):
        work = list(init_states)
        budget_fails = 0
        nterm = [0]
        inner = on_terminal

        def on_terminal(t, inner=inner):
            nterm[0] += 1
            inner(t)
        while work:
            if nterm[0] > self.MAX_TERMINALS or len(work) > 4 * self.MAX_TERMINALS:
                # fail closed instead of exhausting memory: the case split has exploded (usually an inconsistent heap that keeps branching)
                inner(Terminal("undecided", work[-1], msg="exploration abandoned: more than %d cases for one entry" % self.MAX_TERMINALS))
                return
            if budget_fails >= self.MAX_BUDGET_FAILS:
                # fail closed, but do not enumerate an unbounded family of identical failures
                self._finish(Terminal("undecided", work[-1], msg="exploration abandoned: %d paths exhausted the step budget" % budget_fails), on_terminal, work)
                return
            st = work.pop()
            while True:
                snap = st.copy()
                try:
                    term = self.run_block(st)
                except Fork as f:
                    self.forks += 1
                    for label, fn in reversed(f.options):     # explore the simplest refinement (None / existing) first
                        s2 = snap.copy()
                        try:
                            fn(s2)
                            s2.propagate()
                        except Infeasible:
                            continue
                        except Undecided as u:
                            self._finish(Terminal("undecided", snap.copy(), msg=str(u)), on_terminal, work)
                            continue
                        s2.decisions.append(label)
                        work.append(s2)
                    break
                except Infeasible:
                    break
                except LoopHeadReached:
                    if stop_kind is None:
                        raise
                    term = Terminal(stop_kind, st)
                except Panic as p:
                    term = Terminal("panic", st, msg="%s: %s" % (p.kind, p.msg), span=p.span)
                except Undecided as u:
                    term = Terminal("undecided", st, msg=str(u))
                if term is not None:
                    # terminal handlers may need more of H0: they run under the same fork/retry discipline
                    self._finish(term, on_terminal, work)
                    break
                if st.steps > self.MAX_STEPS:
                    budget_fails += 1
                    self._finish(Terminal("undecided", st, msg="step budget exhausted (possible non-terminating loop)"), on_terminal, work)
                    break

    def _finish(self, term, on_terminal, work):
        # individuals existing when the call ended: only these (plus one generic member per quantified write) are
        # subjects of the post-state checks; neighbours materialised by the checks themselves are covered by symmetry.
        term.st.meta["base_nodes"] = frozenset(term.st.nodes)
        pend = [term]
        while pend:
            t = pend.pop()
            snap = t.st.copy()
            try:
                on_terminal(t)
            except Fork as f:
                self.forks += 1
                for label, fn in f.options:
                    s2 = snap.copy()
                    try:
                        fn(s2)
                        s2.propagate()
                    except Infeasible:
                        continue
                    except Undecided as u:
                        pend.append(Terminal("undecided", snap.copy(), msg=str(u)))
                        continue
                    s2.decisions.append(label)
                    pend.append(Terminal(t.kind, s2, t.value, t.msg, t.span))
            except Undecided as u:
                if t.kind != "undecided":
                    pend.append(Terminal("undecided", snap, msg="post-state check: " + str(u)))
            except Infeasible:
                pass

    # ------------------------------------------------------------------ frames
    def push_call(self, st, fnkey, args, dest, target, span=None):
        f = self.fns.get(fnkey)
        if f is None or "mir" not in f:
            raise Undecided("no MIR for local function " + fnkey)
        self.fn_seen.add(fnkey)
        if fnkey in st.meta.get("watch", ()):
            st.events.append(("call", fnkey))
        if st.meta.get("stop_call") == fnkey:
            st.meta["stop_args"] = tuple(args)
            st.meta["stopped_at"] = "call"
            raise LoopHeadReached()
        mir = f["mir"]
        if len(args) != mir["arg_count"]:
            raise Undecided("arity mismatch calling %s: %d vs %d" % (fnkey, len(args), mir["arg_count"]))
        st.frame_counter += 1
        locs = {}
        for i, a in enumerate(args):
            locs[i + 1] = a
        st.frames.append(Frame(st.frame_counter, fnkey, locs, 0, dest, target, None, span))
        if len(st.frames) > 40:
            raise Undecided("call depth")

    def push_native(self, st, name, data, dest, target, span=None):
        st.frame_counter += 1
        st.frames.append(Frame(st.frame_counter, "<native %s>" % name, {}, 0, dest, target, (name, data), span))

    def frame_by_uid(self, st, uid):
        for f in reversed(st.frames):
            if f.uid == uid:
                return f
        raise Undecided("dangling reference to a popped frame")

    def deliver(self, st, value):
        """The frame on top of the stack returns `value`."""
        while True:
            popped = st.frames.pop()
            if not st.frames:
                return Terminal("return", st, value=value)
            top = st.frames[-1]
            if top.native is None:
                if popped.dest is not None:
                    self.store_place(st, top, popped.dest, value)
                if popped.target is None:
                    raise Undecided("return into a diverging call")
                top.bb = popped.target
                return None
            r = self.drive_native(st, value)
            if r is None:
                return None
            value = r[1]          # the native frame itself returns: loop pops it

    def drive_native(self, st, value):
        """Resume the native frame on top with `value` until it pushes a MIR frame (-> None) or returns (-> ('ret', v))."""
        top = st.frames[-1]
        while True:
            name, data = top.native
            act = models.NATIVES[name](self, st, data, value)
            if act[0] == "ret":
                return act
            if act[0] == "call":
                top.native = (name, act[3])
                self.push_call(st, act[1], act[2], None, None)
                return None
            if act[0] == "callv":
                top.native = (name, act[3])
                r = self.call_value(st, act[1], act[2], None, None)
                if r is None:
                    return None
                value = r[1]
                continue
            raise Undecided("bad native action")

    def start_native(self, st, name, data, dest, target, span=None):
        """Begin a std model that needs to call back into MIR.  Returns None (frames pushed) or the immediate value."""
        self.push_native(st, name, data, dest, target, span)
        r = self.drive_native(st, models.START)
        if r is None:
            return None
        st.frames.pop()
        return r[1]

    # ------------------------------------------------------------------ block execution
    def run_block(self, st):
        st.steps += 1
        self.blocks_run += 1
        fr = st.frames[-1]
        if fr.native is not None:
            raise Undecided("native frame on top without pending call")
        f = self.fns[fr.fnkey]
        if fr.bb in self.loop_heads(fr.fnkey):
            stop = st.meta.get("stop_at")
            if stop is not None and stop == (fr.uid, fr.bb) and st.meta.get("stop_armed"):
                raise LoopHeadReached()
            if stop is not None and stop == (fr.uid, fr.bb):
                st.meta["stop_armed"] = True
            else:
                self.at_loop_head(st, fr)
        blk = f["mir"]["blocks"][fr.bb]
        for s in blk["stmts"]:
            k = s["k"]
            if k == "assign":
                self.stmts_run += 1
                v = self.eval_rvalue(st, fr, s["rv"], s.get("span"))
                self.store_place(st, fr, s["place"], v, s.get("span"))
            elif k == "dead":
                fr.locals.pop(s["l"], None)
            elif k in ("live", "nop"):
                pass
            elif k == "setdisc":
                raise Undecided("SetDiscriminant")
            else:
                raise Undecided("statement kind " + k)
        t = blk["term"]
        k = t["k"]
        if k == "goto":
            fr.bb = t["t"]
            return None
        if k == "switch":
            d = self.force(st, self.eval_operand(st, fr, t["discr"]))
            if isinstance(d, VBool):
                val = 1 if d.b else 0
            elif isinstance(d, VInt) and d.t.is_const():
                val = d.t.c
            elif isinstance(d, VInt):
                # symbolic discriminant: decide each arm by comparison
                for (v, tgt) in t["arms"]:
                    if self.cmp(st, d.t, Lin(v), "Eq"):
                        fr.bb = tgt
                        return None
                fr.bb = t["otherwise"]
                return None
            else:
                raise Undecided("switch on %r" % (d,))
            for (v, tgt) in t["arms"]:
                if v == val:
                    fr.bb = tgt
                    return None
            fr.bb = t["otherwise"]
            return None
        if k == "return":
            v = fr.locals.get(0, UNIT)
            return self.deliver(st, v)
        if k == "call":
            return self.do_call(st, fr, t)
        if k == "assert":
            c = self.force(st, self.eval_operand(st, fr, t["cond"]))
            if not isinstance(c, VBool):
                raise Undecided("assert on non-bool")
            if c.b == t["expected"]:
                fr.bb = t["t"]
                return None
            raise Panic("assert", t["msg"], t.get("span"))
        if k == "drop":
            self.do_drop(st, fr, t)
            fr.bb = t["t"]
            return None
        if k == "unreachable":
            raise Undecided("reached an `unreachable` terminator in %s" % fr.fnkey)
        raise Undecided("terminator " + k)

    def do_drop(self, st, fr, t):
        root, path = self.eval_place(st, fr, t["place"])
        tys = self.prog.tys(t["ty"])
        st.drops.append((root, path, tys, self.prog.loc(t.get("span"))))
        # dropping the payload of a node: record which node and whether it currently holds a payload
        if root[0] == "node" and path and path[0][1] == "data":
            n = st.nodes[root[1]]
            cur = n.cur.get("data", n.h0.get("data"))
            st.events.append(("drop-data", root[1], isinstance(cur, VEnum) and cur.variant == "Data"))

    # ------------------------------------------------------------------ places
    def eval_place(self, st, fr, pl):
        root = ("local", fr.uid, pl["l"])
        path = ()
        for e in pl["p"]:
            k = e["k"]
            if k == "deref":
                v = self.force(st, self.load(st, root, path))
                if isinstance(v, (VStr, VOpaque)) or (isinstance(v, VPy) and v.tag in ("slice", "str")):
                    root, path = ("val", v), ()        # &str / &[T] views / opaque handles: pointee is the value itself
                    continue
                if not isinstance(v, VRef):
                    raise Undecided("deref of non-reference %r in %s" % (v, fr.fnkey))
                root, path = v.root, v.path
            elif k == "field":
                path = path + (("field", e.get("name", str(e["i"])) if e.get("adt") not in ("{tuple}", "{closure}") else str(e["i"])),)
            elif k == "downcast":
                path = path + (("variant", e["vname"]),)
            else:
                raise Undecided("projection " + k)
        return root, path

    def load_place(self, st, fr, pl):
        root, path = self.eval_place(st, fr, pl)
        return self.load(st, root, path)

    def store_place(self, st, fr, pl, val, span=None):
        root, path = self.eval_place(st, fr, pl)
        self.store(st, root, path, val, span)

    def load(self, st, root, path):
        kind = root[0]
        if kind == "local":
            fr = self.frame_by_uid(st, root[1])
            if root[2] not in fr.locals:
                raise Undecided("read of uninitialised local _%d in %s" % (root[2], fr.fnkey))
            return self.navigate(st, fr.locals[root[2]], path)
        if kind == "node":
            if not path:
                return self.whole_node(st, root[1])
            f = path[0][1]
            return self.navigate(st, self.read_node_field(st, root[1], f), path[1:])
        if kind == "arena":
            if not path:
                return VStruct(ARENA, (("nodes", VVec("nodes")), ("first_free_slot", self.read_arena(st, "first_free_slot")),
                                       ("last_free_slot", self.read_arena(st, "last_free_slot"))))
            f = path[0][1]
            if f == "nodes":
                if len(path) > 1:
                    raise Undecided("projection into Vec internals")
                return VVec("nodes")
            return self.navigate(st, self.read_arena(st, f), path[1:])
        if kind == "prom":
            return self.navigate(st, st.meta["prom"][(root[1], root[2])][root[3]], path)
        if kind == "val":
            return self.navigate(st, root[1], path)
        if kind == "temp":
            return self.navigate(st, st.meta["temps"][root[1]], path)
        raise Undecided("load from root %r" % (root,))

    def navigate(self, st, v, path):
        for p in path:
            v = self.force(st, v)
            if p[0] == "field":
                name = p[1]
                if isinstance(v, (VStruct, VEnum)):
                    v = v.get(name)
                elif isinstance(v, VTuple):
                    v = v.items[int(name)]
                elif isinstance(v, VClosure):
                    v = v.captures[int(name)]
                elif isinstance(v, VNonZero) or isinstance(v, VVec):
                    raise Undecided("projection into std internals")
                else:
                    raise Undecided("field %s of %r" % (name, v))
            elif p[0] == "variant":
                if not isinstance(v, VEnum):
                    raise Undecided("downcast of %r" % (v,))
                if v.variant != p[1]:
                    raise Undecided("downcast to %s of value %r" % (p[1], v))
            else:
                raise Undecided("path element %r" % (p,))
        return v

    def update(self, st, v, path, val):
        if not path:
            return val
        p = path[0]
        v = self.force(st, v) if not isinstance(v, VUninit) else v
        if p[0] == "field":
            name = p[1]
            if isinstance(v, (VStruct, VEnum)):
                return v.with_field(name, self.update(st, v.get(name), path[1:], val))
            if isinstance(v, VTuple):
                i = int(name)
                items = list(v.items)
                items[i] = self.update(st, items[i], path[1:], val)
                return VTuple(items)
            if isinstance(v, VClosure):
                i = int(name)
                items = list(v.captures)
                items[i] = self.update(st, items[i], path[1:], val)
                return VClosure(v.fnkey, items)
            raise Undecided("store into field %s of %r" % (name, v))
        if p[0] == "variant":
            if isinstance(v, VEnum) and v.variant == p[1]:
                return self.update(st, v, path[1:], val)
            raise Undecided("store through downcast %r of %r" % (p, v))
        raise Undecided("store path %r" % (p,))

    def store(self, st, root, path, val, span=None):
        kind = root[0]
        if kind == "local":
            fr = self.frame_by_uid(st, root[1])
            if not path:
                fr.locals[root[2]] = val
            else:
                fr.locals[root[2]] = self.update(st, fr.locals.get(root[2], UNINIT), path, val)
            return
        if kind == "node":
            if not path:
                raise Undecided("store of a whole Node")
            f = path[0][1]
            if len(path) > 1:
                old = self.read_node_field(st, root[1], f)
                val = self.update(st, old, path[1:], val)
            n = st.nodes[root[1]]
            n.cur[f] = val
            st.meta["wseq"] = st.meta.get("wseq", 0) + 1
            seqs = dict(st.meta.get("cur_seq", {}))
            seqs[(root[1], f)] = st.meta["wseq"]
            st.meta["cur_seq"] = seqs
            st.events.append(("write", root[1], f, self.prog.loc(span), st.frames[-1].fnkey if st.frames else None))
            return
        if kind == "arena":
            if not path:
                raise Undecided("store of a whole Arena")
            f = path[0][1]
            if f == "nodes":
                raise Undecided("store to arena.nodes")
            if len(path) > 1:
                val = self.update(st, self.read_arena(st, f), path[1:], val)
            st.arena_cur[f] = val
            st.events.append(("write-arena", f, self.prog.loc(span)))
            return
        if kind == "temp":
            st.meta["temps"] = dict(st.meta.get("temps", {}))
            st.meta["temps"][root[1]] = self.update(st, st.meta["temps"].get(root[1], UNINIT), path, val)
            return
        raise Undecided("store to root %r" % (root,))

    # ------------------------------------------------------------------ heap
    def read_node_field(self, st, nid, f):
        n = st.nodes[nid]
        cseq = st.meta.get("cur_seq", {}).get((nid, f), 0) if f in n.cur else -1
        # quantified writes from loop summaries that are newer than the explicit write (most recent first)
        for qw in reversed(st.qwrites):
            if qw.seq > cseq:
                r = qw.apply(self, st, nid, f)
                if r is not None:
                    return r
        if f in n.cur:
            return n.cur[f]
        if f in n.h0:
            return n.h0[f]
        if n.fresh:
            raise Undecided("read of unset field %s of a fresh node" % f)
        if f in LINKS:
            if not n.live0:
                return none()     # J5
            return VLazy(nid, f)
        if f == "data" and not n.live0:
            return VEnum(NODEDATA, "NextFree", (("0", VLazy(nid, "nextfree")),))
        raise Undecided("read of node field " + f)

    def whole_node(self, st, nid):
        fs = []
        for f in LINKS + ("stamp", "data"):
            fs.append((f, self.read_node_field(st, nid, f)))
        return VStruct(NODE, fs)

    def read_arena(self, st, f):
        if f in st.arena_cur:
            return st.arena_cur[f]
        if f in st.arena_h0:
            return st.arena_h0[f]
        return VLazy("arena", f)

    def force(self, st, v):
        """Resolve a lazy pre-state value, forking over its materialisations when unknown."""
        while isinstance(v, VLazy):
            if v.n == "arena":
                if v.field in st.arena_h0:
                    v = st.arena_h0[v.field]
                    continue
                raise Fork(models.freelist_options(st, "arena", v.field), "materialise arena." + v.field)
            n = st.nodes[v.n]
            if v.field in n.h0:
                v = n.h0[v.field]
                continue
            if v.field == "nextfree":
                raise Fork(models.freelist_options(st, v.n, "nextfree"), "materialise free-list link of " + v.n)
            raise Fork(st.materialise_options(v.n, v.field), "materialise %s.%s" % (v.n, v.field))
        if isinstance(v, VSymBool):
            from . import ppmodels
            return ppmodels.force_symbool(self, st, v)
        return v

    # ------------------------------------------------------------------ operands / rvalues
    def eval_operand(self, st, fr, o):
        k = o["k"]
        if k in ("copy", "move"):
            return self.load_place(st, fr, o["place"])
        if k == "const":
            return self.eval_const(st, fr, o)
        if k == "runtime_checks":
            # UbChecks / ContractChecks / OverflowChecks: evaluate as the profile says
            s = o.get("s", "")
            if "Overflow" in s:
                return VBool(self.prog.j.get("overflow_checks", False))
            return VBool(self.prog.j.get("debug_assertions", False))
        raise Undecided("operand " + k)

    def eval_const(self, st, fr, o):
        t = self.prog.ty(o["ty"])
        if "promoted" in o:
            return self.eval_promoted(st, fr, o["promoted"])
        if "fn" in o:
            return VFn(o["fn"])
        if "v" in o:
            if t["k"] == "bool":
                return VBool(o["v"])
            if t["k"] == "int":
                return VInt(Lin(o["v"]), t["bits"], t["signed"])
            if t["k"] == "char":
                return VInt(Lin(o["v"]), 32, False)
        if "vs" in o:
            return VInt(Lin(int(o["vs"])), t.get("bits", 128), False)
        if "str" in o:
            return VStr(o["str"])
        if o.get("zst"):
            if t["k"] == "tuple":
                return UNIT
            if t["k"] == "closure":
                return VClosure(t["key"], ())
            if t["k"] == "adt":
                return VStruct(t["path"], ())
            return VOpaque("zst", t["s"])
        mem = o.get("mem")
        if isinstance(mem, str) and t["k"] == "adt":
            body = mem[mem.find("{") + 1:mem.rfind("}")] if "{" in mem else ""
            if body and set(body) <= {"0"}:
                z = self.zero_value(t, 0)
                if z is not None:
                    return z
        return VOpaque("const", o.get("ptr") or o.get("mem") or o.get("opaque") or o.get("uneval"))

    def zero_value(self, t, depth):
        """The value of a constant whose bytes are all zero, for plain data: integers 0, bools false, Option::None (discriminant 0, or the niche of a non-zero
        field - `Some` of a non-zero payload has no all-zero representation), a struct field by field."""
        if depth > 3:
            return None
        if t["k"] == "int":
            return VInt(Lin(0), t["bits"], t["signed"])
        if t["k"] == "bool":
            return VBool(False)
        if t["k"] != "adt":
            return None
        if t["path"] == OPTION:
            return none()
        adt = self.prog.adts.get(t["path"])
        if adt is None or adt.get("generics"):
            return None
        if adt["kind"] != "struct":
            return None
        fs = []
        for fd in adt["variants"][0]["fields"]:
            z = self.zero_value(self.prog.ty(fd["ty"]), depth + 1)
            if z is None:
                return None
            fs.append((fd["name"], z))
        return VStruct(t["path"], tuple(fs))

    def eval_promoted(self, st, fr, idx):
        key = (fr.fnkey, idx)
        proms = st.meta.get("prom", {})
        if key not in proms:
            body = self.fns[fr.fnkey]["promoted"][idx]
            locs = {}
            bb = 0
            guard = 0
            while True:
                guard += 1
                if guard > 50:
                    raise Undecided("promoted too long")
                blk = body["blocks"][bb]
                for s in blk["stmts"]:
                    if s["k"] != "assign":
                        continue
                    rv = s["rv"]
                    if rv["k"] == "ref":
                        if rv["place"]["p"]:
                            raise Undecided("promoted ref projection")
                        val = VRef(("prom", fr.fnkey, idx, rv["place"]["l"]), (), False)
                    elif rv["k"] == "aggregate":
                        ops = [self._prom_operand(o, locs) for o in rv["ops"]]
                        val = self.make_aggregate(rv, ops)
                    elif rv["k"] == "use":
                        val = self._prom_operand(rv["op"], locs)
                    else:
                        raise Undecided("promoted rvalue " + rv["k"])
                    if s["place"]["p"]:
                        raise Undecided("promoted store projection")
                    locs[s["place"]["l"]] = val
                t = blk["term"]
                if t["k"] == "goto":
                    bb = t["t"]
                    continue
                if t["k"] == "return":
                    break
                raise Undecided("promoted terminator " + t["k"])
            proms = dict(proms)
            proms[key] = locs
            st.meta["prom"] = proms
        return st.meta["prom"][key][0]

    def _prom_operand(self, o, locs):
        if o["k"] == "const":
            t = self.prog.ty(o["ty"])
            if "v" in o:
                if t["k"] == "bool":
                    return VBool(o["v"])
                return VInt(Lin(o["v"]), t.get("bits", 64), t.get("signed", False))
            if "str" in o:
                return VStr(o["str"])
            if o.get("zst"):
                return UNIT if t["k"] == "tuple" else VStruct(t.get("path", t["s"]), ())
            return VOpaque("const")
        if o["place"]["p"]:
            raise Undecided("promoted operand projection")
        return locs[o["place"]["l"]]

    def make_aggregate(self, rv, ops):
        ak = rv.get("ak")
        if ak == "tuple":
            return UNIT if not ops else VTuple(ops)
        if ak == "adt":
            names = rv["fields"]
            if rv["adt_kind"] == "enum":
                return VEnum(rv["adt"], rv["variant"], tuple(zip(names, ops)))
            if rv["adt_kind"] == "struct":
                return VStruct(rv["adt"], tuple(zip(names, ops)))
            raise Undecided("union aggregate")
        if ak == "closure":
            return VClosure(rv["key"], ops)
        if ak == "array":
            return VTuple(ops)
        raise Undecided("aggregate kind %s" % ak)

    def eval_rvalue(self, st, fr, rv, span=None):
        k = rv["k"]
        if k == "use":
            return self.eval_operand(st, fr, rv["op"])
        if k == "ref":
            root, path = self.eval_place(st, fr, rv["place"])
            if root[0] == "val" and not path:
                return root[1]
            return VRef(root, path, rv.get("mut", False))
        if k == "aggregate":
            ops = [self.eval_operand(st, fr, o) for o in rv["ops"]]
            return self.make_aggregate(rv, ops)
        if k == "discr":
            v = self.force(st, self.load_place(st, fr, rv["place"]))
            if isinstance(v, VEnum):
                for name, d in rv["variants"]:
                    if name == v.variant:
                        return VInt(Lin(d), 64, True)
                raise Undecided("discriminant of unknown variant %s" % v.variant)
            raise Undecided("discriminant of %r" % (v,))
        if k == "binop":
            a = self.force(st, self.eval_operand(st, fr, rv["a"]))
            b = self.force(st, self.eval_operand(st, fr, rv["b"]))
            return self.binop(st, rv["op"], a, b, self.prog.ty(rv["ty"]))
        if k == "unop":
            a = self.force(st, self.eval_operand(st, fr, rv["a"]))
            op = rv["op"]
            if op == "Not":
                if isinstance(a, VBool):
                    return VBool(not a.b)
                if isinstance(a, VInt) and a.t.is_const():
                    lo, hi = int_range(a.bits, a.signed)
                    return VInt(Lin((~a.t.c) if a.signed else (hi - a.t.c)), a.bits, a.signed)
                raise Undecided("Not of %r" % (a,))
            if op == "Neg":
                if isinstance(a, VInt):
                    r = a.t.neg()
                    lo, hi = st.term_bounds(r)
                    tlo, thi = int_range(a.bits, a.signed)
                    if lo is not None and lo >= tlo and hi <= thi:
                        return VInt(r, a.bits, a.signed)
                    # may wrap: decide
                    if self.cmp(st, a.t, Lin(tlo), "Eq"):
                        return VInt(Lin(tlo), a.bits, a.signed)    # wrapping neg of MIN
                    return VInt(r, a.bits, a.signed)
                raise Undecided("Neg of %r" % (a,))
            raise Undecided("unop " + op)
        if k == "cast":
            return self.cast(st, fr, rv)
        if k == "rawptr":
            root, path = self.eval_place(st, fr, rv["place"])
            return VRef(root, path, True)
        raise Undecided("rvalue " + k)

    def cast(self, st, fr, rv):
        ck = rv["ck"]
        v = self.force(st, self.eval_operand(st, fr, rv["op"]))
        if ck.startswith("PointerCoercion"):
            if "ClosureFnPointer" in ck or "ReifyFnPointer" in ck:
                tg = rv.get("target")
                if tg is None:
                    raise Undecided("fn pointer cast without target")
                return VFn(dict(tg, via="fnptr"))
            if "Unsize" in ck or "MutToConstPointer" in ck:
                return v
            raise Undecided("cast " + ck)
        if ck == "IntToInt":
            to = self.prog.ty(rv["to"])
            if isinstance(v, VBool):
                return VInt(Lin(1 if v.b else 0), to["bits"], to["signed"])
            if isinstance(v, VInt):
                lo, hi = st.term_bounds(v.t)
                tlo, thi = int_range(to["bits"], to["signed"])
                if lo is not None and lo >= tlo and hi <= thi:
                    return VInt(v.t, to["bits"], to["signed"])
                if v.t.is_const():
                    m = 1 << to["bits"]
                    c = v.t.c % m
                    if to["signed"] and c > thi:
                        c -= m
                    return VInt(Lin(c), to["bits"], to["signed"])
            raise Undecided("IntToInt cast of %r" % (v,))
        if ck in ("PtrToPtr",):
            return v
        if ck == "PointerExposeProvenance":
            if isinstance(v, VRef) and v.root[0] == "node" and not v.path and st.nodes[v.root[1]].invec:
                return VInt(Lin(0, ("addr", v.root[1]), 1), 64, False)
            if isinstance(v, VOpaque) and v.tag == "nodes-ptr-start":
                return VInt(Lin(0, ("addr0",), 1), 64, False)
            if isinstance(v, VRef) and v.root[0] == "foreign":
                st.bounds[("addrf",)] = (1, ISIZE_MAX)
                return VInt(Lin(0, ("addrf",), 1), 64, False)
            raise Undecided("pointer-to-integer cast of %r" % (v,))
        raise Undecided("cast " + ck)

    # ------------------------------------------------------------------ arithmetic
    def cmp(self, st, a, b, op):
        """Decide a comparison of two integer terms; forks (with refinement) when undetermined."""
        if op == "Ne":
            return not self.cmp(st, a, b, "Eq")
        if op == "Gt":
            return self.cmp(st, b, a, "Lt")
        if op == "Ge":
            return not self.cmp(st, a, b, "Lt")
        if op == "Le":
            return not self.cmp(st, b, a, "Lt")
        # Eq or Lt
        if a.sym == b.sym and a.k == b.k:
            return (a.c == b.c) if op == "Eq" else (a.c < b.c)
        if (a.sym and a.sym[0] == "sum") or (b.sym and b.sym[0] == "sum"):
            # multi-symbol terms: decide on the difference
            d = lin_combine(a, b, -1)
            dlo, dhi = st.term_bounds(d)
            if dlo is not None:
                if op == "Eq":
                    if dlo == dhi == 0:
                        return True
                    if dlo > 0 or dhi < 0:
                        return False
                else:
                    if dhi < 0:
                        return True
                    if dlo >= 0:
                        return False
            if d.sym is None or d.sym[0] != "sum":
                return self.cmp(st, d, Lin(0), op)
        alo, ahi = st.term_bounds(a)
        blo, bhi = st.term_bounds(b)
        if alo is not None and blo is not None:
            if op == "Lt":
                if ahi < blo:
                    return True
                if alo >= bhi:
                    return False
            else:
                if ahi < blo or bhi < alo:
                    return False
                if alo == ahi == blo == bhi:
                    return True
        # structural knowledge about index symbols
        sa, sb = a.sym, b.sym
        if sa and sb and sa != sb and a.k == 1 and b.k == 1:
            if sa[0] == "idx" and sb[0] == "idx" and op == "Eq" and a.c == b.c:
                return False     # distinct individuals occupy distinct slots
            if sa[0] == "idx" and sb[0] == "len0" and st.nodes[sa[1]].invec and a.c <= b.c:
                # idx(n) <= len0 - 1 for every pre-existing slot:  idx + ac < len0 + bc  when ac <= bc
                return op == "Lt"
            if sa[0] == "cnt" and sb[0] == "len0" and a.c <= b.c:
                # ('cnt', ..) counts the distinct slots a walk has passed, the slot under its cursor not included: cnt <= len0 - 1 (loops._pigeon)
                return op == "Lt"
            if sa[0] == "len0" and sb[0] == "cnt":
                if op == "Lt" and b.c <= a.c + 1:
                    return False
                if op == "Eq" and b.c <= a.c:
                    return False
            if sa[0] == "len0" and sb[0] == "idx" and st.nodes[sb[1]].invec:
                # idx <= len0 - 1:  len0 + ac < idx + bc needs bc >= ac + 2;  equality needs bc >= ac + 1
                if op == "Lt" and b.c <= a.c + 1:
                    return False
                if op == "Eq" and b.c <= a.c:
                    return False
            # ("oob",) is the slot index of an id beyond the end of the node vector: oob >= len0
            if sa[0] == "len0" and sb[0] == "oob" and b.c > a.c:
                return op == "Lt"        # len0 + ac < oob + bc, hence also not equal
            if sa[0] == "oob" and sb[0] == "len0" and a.c >= b.c:
                if op == "Lt":
                    return False
                if op == "Eq" and a.c > b.c:
                    return False
        key = (op, a.k, a.sym, a.c, b.k, b.sym, b.c)
        if key in st.cmp:
            return st.cmp[key]
        # fork, refining the interval of a single-symbol side when possible
        def opt(val):
            def f(s):
                s.cmp[key] = val
                self._refine(s, a, b, op, val)
            return ("%r %s %r = %s" % (a, op, b, val), f)
        raise Fork([opt(True), opt(False)], "compare %r %s %r" % (a, op, b))

    def _refine(self, s, a, b, op, val):
        # only refine  k*sym + c  (k = +-1) against a constant
        if b.is_const() and a.sym is not None and abs(a.k) == 1:
            sym, k, c, v = a.sym, a.k, a.c, b.c
            flip = False
        elif a.is_const() and b.sym is not None and abs(b.k) == 1:
            sym, k, c, v = b.sym, b.k, b.c, a.c
            flip = True
        else:
            return
        lo, hi = s.bounds.get(sym, (None, None))
        if lo is None:
            return
        # value of term = k*x + c.  Express constraint on x.
        if op == "Eq":
            x = (v - c) * k           # since k = +-1
            if val:
                if x < lo or x > hi:
                    raise Infeasible("eq outside bounds")
                lo = hi = x
            else:
                if x == lo:
                    lo += 1
                elif x == hi:
                    hi -= 1
        else:
            # Lt: (a < b).  not flip:  k*x + c < v ; flip: v < k*x + c
            want_lt = val
            if not flip:
                # k*x + c < v   (or >= v when val False)
                if k == 1:
                    if want_lt:
                        hi = min(hi, v - c - 1)
                    else:
                        lo = max(lo, v - c)
                else:
                    # -x + c < v  <=>  x > c - v
                    if want_lt:
                        lo = max(lo, c - v + 1)
                    else:
                        hi = min(hi, c - v)
            else:
                # v < k*x + c
                if k == 1:
                    if want_lt:
                        lo = max(lo, v - c + 1)
                    else:
                        hi = min(hi, v - c)
                else:
                    # v < -x + c  <=> x < c - v
                    if want_lt:
                        hi = min(hi, c - v - 1)
                    else:
                        lo = max(lo, c - v)
        if lo > hi:
            raise Infeasible("empty interval")
        s.bounds[sym] = (lo, hi)

    def add_terms(self, a, b, sign=1):
        if b.is_const():
            return a.add_const(sign * b.c)
        if a.is_const():
            return Lin(a.c + sign * b.c, b.sym, sign * b.k)
        if a.sym == b.sym:
            return Lin(a.c + sign * b.c, a.sym, a.k + sign * b.k)
        return lin_combine(a, b, sign)

    def ptr_class(self, st, v):
        """Raw pointers the slice-layout model knows: a slot of the node vector, the start / one-past-the-end of the vector, a node of another allocation."""
        if isinstance(v, VRef) and v.root[0] == "node" and not v.path and st.nodes[v.root[1]].invec:
            return ("in", v.root[1])
        if isinstance(v, VRef) and v.root[0] == "foreign":
            return ("foreign",)
        if isinstance(v, VOpaque) and v.tag == "nodes-ptr-start":
            return ("start",)
        if isinstance(v, VOpaque) and v.tag == "nodes-ptr-end":
            return ("end",)
        return None

    def ptr_cmp(self, st, pa, pb, op):
        """Address order of two known pointers (language guarantees: element i of a slice lives at start + i * size_of::<T>(), one-past-the-end is
        start + len * size_of::<T>(), and a distinct allocation lies entirely below the vector's buffer or at/above its end)."""
        flip = {"Lt": "Gt", "Gt": "Lt", "Le": "Ge", "Ge": "Le", "Eq": "Eq", "Ne": "Ne"}
        order = {"in": 1, "foreign": 1, "start": 2, "end": 3}
        if order[pa[0]] > order[pb[0]] or (pa[0] == "start" and pb[0] == "in"):
            pa, pb, op = pb, pa, flip[op]
        if pa[0] == "in" and pb[0] == "start":
            rel = "eq" if self.cmp(st, Lin(0, ("idx", pa[1]), 1), Lin(0), "Eq") else "gt"
        elif pa[0] == "in" and pb[0] == "end":
            rel = "lt"
        elif pa[0] == "foreign" and pb[0] in ("start", "end"):
            st.bounds.setdefault(("addrf",), (1, ISIZE_MAX))
            below = self.cmp(st, Lin(0, ("addrf",), 1), Lin(0, ("addr0",), 1), "Lt")
            rel = "lt" if below else ("gt" if pb[0] == "start" else "ge")
        elif pa[0] == "start" and pb[0] == "end":
            rel = "eq" if self.cmp(st, st.len, Lin(0), "Eq") else "lt"
        elif pa == pb and pa[0] != "foreign":
            rel = "eq"
        elif pa[0] == "in" and pb[0] == "in":
            rel = "lt" if self.cmp(st, Lin(0, ("idx", pa[1]), 1), Lin(0, ("idx", pb[1]), 1), "Lt") else "gt"
        else:
            raise Undecided("pointer comparison %r %s %r" % (pa, op, pb))
        table = {"lt": {"Lt": True, "Le": True, "Gt": False, "Ge": False, "Eq": False, "Ne": True},
                 "eq": {"Lt": False, "Le": True, "Gt": False, "Ge": True, "Eq": True, "Ne": False},
                 "gt": {"Lt": False, "Le": False, "Gt": True, "Ge": True, "Eq": False, "Ne": True},
                 "ge": {"Lt": False, "Ge": True}}
        if op not in table[rel]:
            raise Undecided("pointer comparison %s of a pointer at or above %r" % (op, pb))
        return table[rel][op]

    def binop(self, st, op, a, b, ty):
        if isinstance(a, VBool) and isinstance(b, VBool):
            if op == "Eq":
                return VBool(a.b == b.b)
            if op == "Ne":
                return VBool(a.b != b.b)
            if op == "BitAnd":
                return VBool(a.b and b.b)
            if op == "BitOr":
                return VBool(a.b or b.b)
            if op == "BitXor":
                return VBool(a.b != b.b)
            raise Undecided("bool binop " + op)
        if op in ("Eq", "Ne", "Lt", "Le", "Gt", "Ge"):
            pa, pb = self.ptr_class(st, a), self.ptr_class(st, b)
            if pa is not None and pb is not None:
                return VBool(self.ptr_cmp(st, pa, pb, op))
        if isinstance(a, VInt) and isinstance(b, VInt):
            bits, signed = a.bits, a.signed
            # slice layout: element i of the node vector lives at base + i * size_of::<Node<T>>() (language guarantee)
            if a.t.sym and a.t.sym[0] == "addr" and b.t.sym == ("addr0",) and a.t.k == 1 and b.t.k == 1 and a.t.c == 0 and b.t.c == 0:
                if op in ("Sub", "SubUnchecked"):
                    return VInt(Lin(0, ("off", a.t.sym[1]), 1), bits, signed)
                if op == "SubWithOverflow":
                    return VTuple((VInt(Lin(0, ("off", a.t.sym[1]), 1), bits, signed), VBool(False)))
                if op in ("Lt",):
                    return VBool(False)
                if op in ("Ge",):
                    return VBool(True)
            if op == "Div" and a.t.sym and a.t.sym[0] == "off" and b.t.sym == ("size",) and a.t.k == 1 and b.t.k == 1 and a.t.c == 0 and b.t.c == 0:
                return VInt(Lin(0, ("idx", a.t.sym[1]), 1), bits, signed)
            if op == "Div" and a.t.sym == ("offf",) and b.t.sym == ("size",) and a.t.k == 1 and b.t.k == 1 and a.t.c == 0 and b.t.c == 0:
                # an allocation above the node vector starts at or beyond its end: offset >= len * size, so the quotient is an out-of-range slot index
                st.bounds[("oob",)] = (0, ISIZE_MAX)
                return VInt(Lin(0, ("oob",), 1), bits, signed)
            if op in ("Eq", "Ne", "Lt", "Le", "Gt", "Ge"):
                return VBool(self.cmp(st, a.t, b.t, op))
            if op in ("Add", "Sub", "AddWithOverflow", "SubWithOverflow", "AddUnchecked", "SubUnchecked"):
                r = self.add_terms(a.t, b.t, 1 if op.startswith("Add") else -1)
                tlo, thi = int_range(bits, signed)
                lo, hi = st.term_bounds(r)
                if lo is not None and lo >= tlo and hi <= thi:
                    over = False
                elif lo is not None and (hi < tlo or lo > thi):
                    over = True
                else:
                    over = not (self.cmp(st, r, Lin(tlo), "Ge") and self.cmp(st, r, Lin(thi), "Le"))
                if op.endswith("WithOverflow"):
                    if over:
                        return VTuple((VOpaque("wrapped"), VBool(True)))
                    return VTuple((VInt(r, bits, signed), VBool(False)))
                if over:
                    if r.is_const():
                        m = 1 << bits
                        c = r.c % m
                        if signed and c > thi:
                            c -= m
                        return VInt(Lin(c), bits, signed)
                    raise Undecided("wrapping arithmetic on a symbolic value")
                return VInt(r, bits, signed)
            if op in ("Mul", "MulUnchecked", "MulWithOverflow") and (a.t.is_const() or b.t.is_const()):
                k, t = (a.t.c, b.t) if a.t.is_const() else (b.t.c, a.t)
                d, cc = lin_parts(t)
                r = lin_build({s_: kk * k for s_, kk in d.items()}, cc * k)
                tlo, thi = int_range(bits, signed)
                lo, hi = st.term_bounds(r)
                if lo is not None and lo >= tlo and hi <= thi:
                    return VTuple((VInt(r, bits, signed), VBool(False))) if op.endswith("WithOverflow") else VInt(r, bits, signed)
                inr = self.cmp(st, r, Lin(tlo), "Ge") and self.cmp(st, r, Lin(thi), "Le")
                if inr:
                    return VTuple((VInt(r, bits, signed), VBool(False))) if op.endswith("WithOverflow") else VInt(r, bits, signed)
                if op.endswith("WithOverflow"):
                    return VTuple((VOpaque("wrapped"), VBool(True)))
                raise Undecided("wrapping multiplication on a symbolic value")
            if a.t.is_const() and b.t.is_const():
                x, y = a.t.c, b.t.c
                if op == "Div" and y != 0:
                    return VInt(Lin(int(x / y)), bits, signed)
                if op == "BitAnd":
                    return VInt(Lin(x & y), bits, signed)
                if op == "BitOr":
                    return VInt(Lin(x | y), bits, signed)
            raise Undecided("integer binop %s on %r, %r" % (op, a, b))
        raise Undecided("binop %s on %r, %r" % (op, a, b))

    # ------------------------------------------------------------------ calls
    def do_call(self, st, fr, t):
        c = t["callee"]
        args = [self.eval_operand(st, fr, a) for a in t["args"]]
        if c.get("kind") == "indirect":
            fv = self.force(st, self.eval_operand(st, fr, c["op"]))
            r = self.call_value(st, fv, args, t["dest"], t.get("t"), t.get("span"))
        else:
            r = self.call_resolved(st, c, args, t["dest"], t.get("t"), t.get("span"))
        if r is not None:
            # immediate result from a model
            self.store_place(st, fr, t["dest"], r[1])
            if t.get("t") is None:
                raise Undecided("model returned for a diverging call")
            fr.bb = t["t"]
        return None

    def call_value(self, st, fv, args, dest, target, span=None):
        """Call a function value.  Returns None if a frame was pushed, or ('imm', value)."""
        if isinstance(fv, VClosure):
            return self.call_closure(st, fv, args, dest, target, span)
        if isinstance(fv, VFn):
            c = fv.callee
            if c.get("via") == "fnptr" and c.get("local") and "closure" in c.get("key", ""):
                # non-capturing closure coerced to fn pointer: body takes (&closure, args...)
                return self.call_closure(st, VClosure(c["key"], ()), args, dest, target, span)
            return self.call_resolved(st, c, args, dest, target, span)
        raise Undecided("call of %r" % (fv,))

    def call_closure(self, st, cl, args, dest, target, span=None):
        f = self.fns.get(cl.fnkey)
        if f is None:
            raise Undecided("closure body missing " + cl.fnkey)
        mir = f["mir"]
        t1 = self.prog.ty(mir["locals"][1]["ty"])
        if t1["k"] == "ref":
            selfv = VRef(st.new_temp(cl), (), t1["mut"])
        else:
            selfv = cl
        self.push_call(st, cl.fnkey, [selfv] + list(args), dest, target, span)
        return None

    def call_resolved(self, st, c, args, dest, target, span=None):
        kind = c.get("kind")
        if c.get("ctor"):
            ct = c["ctor"]
            fields = tuple(zip(ct["fields"], args))
            v = VEnum(ct["adt"], ct["variant"], fields) if ct["adt_kind"] == "enum" else VStruct(ct["adt"], fields)
            return ("imm", v)
        if c.get("local") and kind == "item":
            key = c["key"]
            if "{closure#" in key.rsplit("::", 1)[-1]:
                # call through Fn*/FnOnce::call*: args = (closure, (tuple of args))
                clv = self.force(st, args[0])
                if isinstance(clv, VRef):
                    clv = self.force(st, self.load(st, clv.root, clv.path))
                tup = args[1] if len(args) > 1 else UNIT
                targs = list(tup.items) if isinstance(tup, VTuple) else []
                return self.call_closure(st, clv, targs, dest, target, span)
            stubs = st.meta.get("stubs")
            if stubs and key in stubs:
                n = st.meta.get("stub_count", {}).get(key, 0)
                vals = stubs[key]
                if n >= len(vals):
                    raise Undecided("more calls of the stubbed function %s than the step provides for" % key)
                sc_ = dict(st.meta.get("stub_count", {}))
                sc_[key] = n + 1
                st.meta["stub_count"] = sc_
                snap = []
                for a_ in args:
                    av = self.force(st, a_)
                    snap.append(self.force(st, self.load(st, av.root, av.path)) if isinstance(av, VRef) else av)
                st.events.append(("stub-call", key, n, tuple(args), tuple(snap)))
                return ("imm", vals[n])
            self.push_call(st, key, args, dest, target, span)
            return None
        name = c.get("path") or c.get("decl")
        if kind in ("item", "unresolved", "intrinsic", "closure_once_shim", "fnptr_shim", "reify_shim", "clone_shim", "virtual"):
            m = models.lookup(name, c)
            if m is None:
                ek = c.get("ext_body")
                if ek and ek in self.fns and not os.environ.get("VERIF_NO_EXT"):
                    # no hand-written model: interpret the library's own MIR of this instance
                    self.ext_used.add(name)
                    self.push_call(st, ek, args, dest, target, span)
                    return None
                raise Undecided("unmodelled callee %s (%s)" % (name, kind))
            r = m(self, st, args, c, dest, target, span)
            if r is None:
                return None
            return ("imm", r)
        raise Undecided("callee kind %s (%s)" % (kind, name))


# ---------------------------------------------------------------------- nested evaluation helpers
def _run_pure(self, st, fv, args, what="closure"):
    """Evaluate a function value on a scratch copy of `st` (isolated frame stack).  Forks raised inside propagate to the
    caller's block (their refinements only mention existing individuals).  Returns (value, scratch state)."""
    sc = st.copy()
    nev = len(sc.events)
    self.push_native(sc, "barrier", None, None, None)
    r = self.call_value(sc, fv, list(args), None, None)
    if r is not None:
        val = r[1]
    else:
        guard = 0
        try:
            while True:
                guard += 1
                if guard > 400:
                    raise Undecided("%s probe does not terminate" % what)
                term = self.run_block(sc)
                if term is not None:
                    raise Undecided("%s probe ended the whole call" % what)
        except models.PureReturn as pr:
            val = pr.value
    writes = [e for e in sc.events[nev:] if e[0] in ("write", "write-arena", "push", "clear")]
    return val, sc, writes


Interp.run_pure = _run_pure


def _chain_protocol(self, next_key):
    """Derive, by one symbolic run of `next` on a generic cursor, whether an iterator is a pure walk along one link field.
    Returns dict(field=..., cursor_path=(...)) or None.  Cached per `next` function."""
    cache = self.__dict__.setdefault("_protocols", {})
    if next_key in cache:
        return cache[next_key]
    res = None
    try:
        f = self.fns[next_key]
        self_ty = self.prog.ty(self.prog.ty(f["inputs"][0])["ty"])
        adt = self.prog.adts.get(self_ty.get("path"))
        st = State()
        g = st.new_node(True, "generic chain member")
        # build the iterator value generically from its type: find the Option<NodeId> cursor field(s)
        val, cursors = self._generic_iter_value(st, self_ty, some(st.id_of(g)))
        if val is not None and len(cursors) == 1:
            slot = st.new_temp(val)
            out, sc, writes = self.run_pure(st, VFn({"kind": "item", "local": True, "key": next_key}), [VRef(slot, (), True)], "iterator next")
            after = sc.meta["temps"][slot[1]]
            newcur = self.navigate(sc, after, cursors[0])
            out = out if isinstance(out, VLazy) else out
            yielded = st.node_of_id(out.get("0")) if isinstance(out, VEnum) and out.variant == "Some" else None
            if not writes and yielded == g and isinstance(newcur, VLazy) and newcur.n == g and newcur.field in LINKS:
                # exhausted cursor stays exhausted and yields None
                st2 = State()
                val2, _ = self._generic_iter_value(st2, self_ty, none())
                slot2 = st2.new_temp(val2)
                out2, sc2, w2 = self.run_pure(st2, VFn({"kind": "item", "local": True, "key": next_key}), [VRef(slot2, (), True)], "iterator next")
                after2 = self.navigate(sc2, sc2.meta["temps"][slot2[1]], cursors[0])
                if isinstance(out2, VEnum) and out2.variant == "None" and isinstance(after2, VEnum) and after2.variant == "None" and not w2:
                    res = {"field": newcur.field, "cursor_path": cursors[0]}
    except (Fork, Undecided, Panic, Infeasible, KeyError, IndexError, AttributeError):
        res = None
    cache[next_key] = res
    return res


Interp.chain_protocol = _chain_protocol


def _generic_iter_value(self, st, ty, cursor):
    """Build a value of a local iterator type whose (single) Option<NodeId> field holds `cursor`; other fields: the arena ref."""
    cursors = []

    def build(t, path):
        if t["k"] == "ref":
            inner = self.prog.ty(t["ty"])
            if inner.get("path") == ARENA:
                return VRef(("arena",), (), False)
            return None
        if t["k"] == "adt" and t.get("path") == OPTION:
            a = self.prog.ty(t["args"][0])
            if a.get("path") == NODEID:
                cursors.append(path)
                return cursor
            return None
        if t["k"] == "adt" and t["local"]:
            adt = self.prog.adts.get(t["path"])
            if adt is None or adt["kind"] != "struct":
                return None
            # substitute generics positionally
            fs = []
            for fd in adt["variants"][0]["fields"]:
                ft = self.prog.ty(fd["ty"])
                v = build(ft, path + (("field", fd["name"]),))
                if v is None:
                    return None
                fs.append((fd["name"], v))
            return VStruct(t["path"], fs)
        return None

    v = build(ty, ())
    return v, cursors


Interp._generic_iter_value = _generic_iter_value


# ---------------------------------------------------------------------- loops
def _loop_heads(self, fnkey):
    cache = self.__dict__.setdefault("_loop_heads", {})
    if fnkey not in cache:
        from ..cfg import CFG
        cache[fnkey] = {b for (_, b) in CFG(self.fns[fnkey]["mir"]).back_edges()}
    return cache[fnkey]


Interp.loop_heads = _loop_heads


def _mentions(v, nid):
    return ("'%s'" % nid) in repr(vkey(v))


from . import loops as _loops      # noqa: E402  (loop summaries live in loops.py)

Interp.at_loop_head = _loops.at_loop_head
