"""Specification side of E2: J on post-states, reference model (DESIGN 4.6), overlay/atomicity, J3 obligations."""
from .values import *
from .state import *
from . import models


class View:
    def __init__(self, I, st):
        self.I, self.st = I, st

    def decode(self, v):
        """Option<NodeId> value -> None | node id | ('bad', text)."""
        v = self.I.force(self.st, v)
        if isinstance(v, VEnum) and v.adt == OPTION:
            if v.variant == "None":
                return None
            n = self.st.node_of_id(v.get("0"))
            if n is None:
                return ("bad", repr(v))
            return n
        return ("bad", repr(v))

    def pre(self, n, f):
        r = self.st.nodes[n]
        if r.fresh:
            return None
        if f not in r.h0:
            if not r.live0:
                return None
            self.I.force(self.st, VLazy(n, f))      # forks
        return self.decode(r.h0[f])

    def post(self, n, f):
        return self.decode(self.I.read_node_field(self.st, n, f))

    def post_raw(self, n, f):
        return self.I.force(self.st, self.I.read_node_field(self.st, n, f))

    def stamp_term(self, n):
        v = self.I.read_node_field(self.st, n, "stamp")
        return v.get("0").t

    def live_post(self, n):
        if not self.st.nodes[n].invec:
            return False
        return not self.I.cmp(self.st, self.stamp_term(n), Lin(0), "Lt")

    def id_stamp_ok(self, n, f):
        """J0: the id stored in link f of n carries the current stamp of its target."""
        v = self.I.force(self.st, self.I.read_node_field(self.st, n, f))
        if v.variant == "None":
            return True
        idv = v.get("0")
        tgt = self.st.node_of_id(idv)
        if tgt is None:
            return False
        return self.I.cmp(self.st, idv.get("stamp").get("0").t, self.stamp_term(tgt), "Eq")


def touched_nodes(st, I=None):
    out = []
    base = st.meta.get("base_nodes")
    for k, r in st.nodes.items():
        if base is not None and k not in base:
            continue
        if r.fresh or any(f in r.cur for f in LINKS + ("stamp", "data")):
            out.append(k)
        elif I is not None and any(qw.guard(I, st, k) for qw in st.qwrites):
            out.append(k)
    return out


def qw_fields(view, k):
    return {f for qw in view.st.qwrites if qw.guard(view.I, view.st, k) for f in qw.writes}


def check_J(view, extra=()):
    """Re-check exactly the instances of J0-J2, J5 that mention a written (node, field); every other instance holds by the
    hypothesis J on the pre-state (it mentions no changed field).  Returns a list of (key, text)."""
    st = view.st
    bad = []
    INV = {"next_sibling": "previous_sibling", "previous_sibling": "next_sibling"}

    def isnode(b):
        return b is not None and not isinstance(b, tuple)

    def live(b):
        return isnode(b) and view.live_post(b)

    def post(n, f):
        return view.post(n, f)

    # instance checkers -------------------------------------------------------------
    def I1(a):      # a.next = b => b.prev = a
        b = post(a, "next_sibling")
        if live(b) and post(b, "previous_sibling") != a:
            bad.append(("J2a|next/prev not inverse", "%s.next = %s but %s.prev = %s" % (a, b, b, post(b, "previous_sibling"))))

    def I2(a):      # a.prev = b => b.next = a
        b = post(a, "previous_sibling")
        if live(b) and post(b, "next_sibling") != a:
            bad.append(("J2a|prev/next not inverse", "%s.prev = %s but %s.next = %s" % (a, b, b, post(b, "next_sibling"))))

    def I3(a):      # a.next = b => b.parent = a.parent
        b = post(a, "next_sibling")
        if live(b) and post(b, "parent") != post(a, "parent"):
            bad.append(("J2b|siblings disagree on parent", "%s.parent = %s, %s.parent = %s" % (a, post(a, "parent"), b, post(b, "parent"))))

    def I4(a):      # a.first = c => c.parent = a, c.prev = None
        c = post(a, "first_child")
        if live(c):
            if post(c, "parent") != a:
                bad.append(("J2c|first child does not name its parent", "%s.first = %s but %s.parent = %s" % (a, c, c, post(c, "parent"))))
            if post(c, "previous_sibling") is not None:
                bad.append(("J2c|first child has a previous sibling", "%s.first = %s, %s.prev = %s" % (a, c, c, post(c, "previous_sibling"))))

    def I5(a):
        c = post(a, "last_child")
        if live(c):
            if post(c, "parent") != a:
                bad.append(("J2c|last child does not name its parent", "%s.last = %s but %s.parent = %s" % (a, c, c, post(c, "parent"))))
            if post(c, "next_sibling") is not None:
                bad.append(("J2c|last child has a next sibling", "%s.last = %s, %s.next = %s" % (a, c, c, post(c, "next_sibling"))))

    def I6(a):
        f, l = post(a, "first_child"), post(a, "last_child")
        if (f is None) != (l is None):
            bad.append(("J2e|first/last child not both set", "%s.first = %s, %s.last = %s" % (a, f, a, l)))

    def I7(a):      # a.parent = p, a.prev = None => p.first = a ; a.prev != None => p.first != a
        p = post(a, "parent")
        if live(p):
            pf = post(p, "first_child")
            if post(a, "previous_sibling") is None:
                if pf != a:
                    bad.append(("J2d|head of chain is not parent's first child", "%s.parent = %s, %s.prev = None, %s.first = %s" % (a, p, a, p, pf)))
            elif pf == a:
                bad.append(("J2d|first child has a previous sibling", "%s.first = %s" % (p, a)))

    def I8(a):
        p = post(a, "parent")
        if live(p):
            pl = post(p, "last_child")
            if post(a, "next_sibling") is None:
                if pl != a:
                    bad.append(("J2d|tail of chain is not parent's last child", "%s.parent = %s, %s.next = None, %s.last = %s" % (a, p, a, p, pl)))
            elif pl == a:
                bad.append(("J2d|last child has a next sibling", "%s.last = %s" % (p, a)))

    def I9(a):
        p = post(a, "parent")
        if live(p) and (post(p, "first_child") is None or post(p, "last_child") is None):
            bad.append(("J2d|parent of a node has no children", "%s.parent = %s but %s has no first/last child" % (a, p, p)))

    def J0(a, f):
        t = post(a, f)
        if isinstance(t, tuple):
            bad.append(("J0|link %s holds a non-id" % f, "%s.%s = %s" % (a, f, t[1])))
        elif t is not None:
            if t == a:
                bad.append(("J3|self link %s" % f, "%s.%s = itself" % (a, f)))
            elif not view.live_post(t):
                bad.append(("J0|live node links to a removed node via %s" % f, "%s.%s = %s (removed)" % (a, f, t)))
            elif not view.id_stamp_ok(a, f):
                bad.append(("J0|stale generation in link %s" % f, "%s.%s names an older generation of %s" % (a, f, t)))

    seen = set()

    def once(tag, fn, *a):
        if (tag,) + a in seen:
            return
        seen.add((tag,) + a)
        fn(*a)

    W = touched_nodes(st, view.I)
    W = W + [e for e in extra if e not in W]
    for qw in st.qwrites:
        # a generic member of the quantified set is checked like a named one
        g = _generic_member(view, qw)
        if g is not None and g not in W:
            W.append(g)
    for w in W:
        r = st.nodes[w]
        if not r.invec:
            continue
        lv = view.live_post(w)
        data = view.post_raw(w, "data")
        if isinstance(data, VEnum) and lv != (data.variant == "Data"):
            bad.append(("J1|stamp sign and payload disagree", "%s: live=%s data=%s" % (w, lv, data.variant)))
        stamp_changed = r.fresh or ("stamp" in r.cur and r.cur["stamp"].get("0").t != r.h0["stamp"].get("0").t)
        if not lv:
            # J5 for a node that is removed in the post-state
            for f in LINKS:
                t = post(w, f)
                if t is not None:
                    bad.append(("J5|removed node keeps link %s" % f, "%s.%s = %s" % (w, f, t)))
        if stamp_changed and not r.fresh:
            # every pre-state reference to w must be gone or carry the new generation (J0)
            for f, inv in (("parent", ("first_child", "last_child")), ("previous_sibling", ("next_sibling",)),
                           ("next_sibling", ("previous_sibling",)), ("first_child", ("parent",)), ("last_child", ("parent",))):
                o = view.pre(w, f)
                if isnode(o) and view.live_post(o):
                    for g in inv:
                        if post(o, g) == w:
                            once("J0", J0, o, g)
        if not lv:
            continue
        qf = qw_fields(view, w) if st.qwrites else ()
        for f in LINKS:
            if f not in r.cur and not r.fresh and f not in qf:
                continue
            pre_v = view.pre(w, f)
            post_v = post(w, f)
            if pre_v == post_v and not r.fresh and not stamp_changed:
                continue
            once("J0", J0, w, f)
            o = pre_v if isnode(pre_v) and st.nodes[pre_v].invec and view.live_post(pre_v) else None
            pp = view.pre(w, "parent") if not r.fresh else None
            pp = pp if isnode(pp) and view.live_post(pp) else None
            if f == "next_sibling":
                once("I1", I1, w); once("I3", I3, w); once("I8", I8, w)
                if o:
                    once("I2", I2, o)
                if pp:
                    once("I5", I5, pp)
            elif f == "previous_sibling":
                once("I2", I2, w); once("I7", I7, w)
                if o:
                    once("I1", I1, o)
                if pp:
                    once("I4", I4, pp)
            elif f == "parent":
                once("I3", I3, w); once("I7", I7, w); once("I8", I8, w); once("I9", I9, w)
                b = post(w, "previous_sibling")
                if live(b):
                    once("I3", I3, b)
                if o:
                    once("I4", I4, o); once("I5", I5, o)
            elif f == "first_child":
                once("I4", I4, w); once("I6", I6, w)
                if o:
                    once("I7", I7, o); once("I9", I9, o)
                if post_v is None:
                    l = view.pre(w, "last_child")
                    if isnode(l) and view.live_post(l):
                        once("I9", I9, l)
                    _generic_child(view, w, I9)
            elif f == "last_child":
                once("I5", I5, w); once("I6", I6, w)
                if o:
                    once("I8", I8, o); once("I9", I9, o)
                if post_v is None:
                    fc = view.pre(w, "first_child")
                    if isnode(fc) and view.live_post(fc):
                        once("I9", I9, fc)
                    _generic_child(view, w, I9)
    return bad


def _generic_member(view, qw):
    """A generic individual satisfying the guard of a quantified write (if one can exist).
    Created through a refinement of the terminal's snapshot (so that later forks can refer to it)."""
    st = view.st
    key = ("qwgen", qw.seq)
    if key in st.meta:
        return st.meta[key]
    gf, gn = qw.guard_field, qw.guard_node
    sc = st.copy()
    feasible = True
    try:
        g = sc.new_node(True, "generic member")
        sc.set_h0_link(g, gf, gn)
        sc.propagate()
    except Infeasible:
        feasible = False

    def mk(s):
        if feasible:
            g = s.new_node(True, "generic member of {m: H0[m].%s == %s}" % (gf, gn))
            s.nodes[g].generic = "member"
            s.set_h0_link(g, gf, gn)
            s.meta[key] = g
        else:
            s.meta[key] = None
    raise Fork([("generic member for %s" % (key,), mk)], "introduce a generic member")


def _generic_child(view, a, check):
    """If `a` had children in the pre-state, check instance `check` on a generic interior child (when one can exist)."""
    st = view.st
    if st.nodes[a].fresh or view.pre(a, "first_child") is None:
        return
    g = _generic_member(view, QWriteProbe(a))
    if g is not None:
        check(g)


def overlay(view):
    """Observable differences between pre- and post-state: [(what, pre, post)]."""
    st = view.st
    out = []
    for k, r in st.nodes.items():
        if r.fresh:
            out.append(("%s allocated" % k, None, "new slot"))
            continue
        qf = qw_fields(view, k) if st.qwrites else ()
        for f in LINKS:
            if f in r.cur or f in qf:
                a, b = view.pre(k, f), view.post(k, f)
                if a != b:
                    out.append(("%s.%s" % (k, f), a, b))
        if "stamp" in r.cur:
            t0, t1 = r.h0["stamp"].get("0").t, r.cur["stamp"].get("0").t
            if t0 != t1:
                out.append(("%s.stamp" % k, repr(t0), repr(t1)))
        if "data" in r.cur:
            d0, d1 = r.h0.get("data"), view.I.force(st, r.cur["data"])
            if d0 is None or vkey(d0) != vkey(d1):
                if not (isinstance(d0, VEnum) and isinstance(d1, VEnum) and d0.variant == d1.variant == "NextFree"
                        and _same_nextfree(view, k, d1)):
                    out.append(("%s.data" % k, repr(d0), repr(d1)))
    for f, v in st.arena_cur.items():
        v0 = view.I.force(st, VLazy("arena", f)) if f not in st.arena_h0 else st.arena_h0[f]
        if vkey(view.I.force(st, v)) != vkey(v0):
            out.append(("arena." + f, repr(v0), repr(v)))
    if st.len != st.len0:
        out.append(("arena.nodes.len", repr(st.len0), repr(st.len)))
    for qw in st.qwrites:
        out.append(("forall m with H0[m].%s == %s" % (qw.guard_field, qw.guard_node), "H0", {f: repr(v) for f, v in qw.writes.items()}))
    for e in st.events:
        if e[0] in ("clear",):
            out.append(("arena.nodes cleared", None, None))
        if e[0] == "drop-data" and e[2]:
            out.append(("payload of %s dropped" % e[1], None, None))
    return out


def _same_nextfree(view, k, d1):
    st = view.st
    v1 = view.I.force(st, d1.get("0"))
    v0 = view.I.force(st, VLazy(k, "nextfree"))
    return vkey(v0) == vkey(v1)


class QWriteProbe:
    """Stand-in with the interface _generic_member needs (guard only)."""

    def __init__(self, x):
        self.seq, self.guard_field, self.guard_node, self.writes = ("model", x), "parent", x, {"parent": None}


# ------------------------------------------------------------------ reference model
class Model:
    def __init__(self, view):
        self.v = view
        self.M = {}
        self.q = None       # (x, P): every pre-state child of x gets parent P

    def get(self, n, f):
        if (n, f) in self.M:
            return self.M[(n, f)]
        if f == "parent" and self.q is not None and not self.v.st.nodes[n].fresh and self.v.pre(n, "parent") == self.q[0]:
            return self.q[1]
        return self.v.pre(n, f)

    def set(self, n, f, val):
        self.M[(n, f)] = val

    def gap(self, n):
        a, b, p = self.get(n, "previous_sibling"), self.get(n, "next_sibling"), self.get(n, "parent")
        if a is not None:
            self.set(a, "next_sibling", b)
        elif p is not None:
            self.set(p, "first_child", b)
        if b is not None:
            self.set(b, "previous_sibling", a)
        elif p is not None:
            self.set(p, "last_child", a)
        for f in ("parent", "previous_sibling", "next_sibling"):
            self.set(n, f, None)

    def place(self, n, P, A, B):
        self.set(n, "parent", P)
        self.set(n, "previous_sibling", A)
        self.set(n, "next_sibling", B)
        if A is not None:
            self.set(A, "next_sibling", n)
        elif P is not None:
            self.set(P, "first_child", n)
        if B is not None:
            self.set(B, "previous_sibling", n)
        elif P is not None:
            self.set(P, "last_child", n)

    def op(self, name, x, n=None):
        if name == "detach":
            self.gap(x)
        elif name == "append":
            self.gap(n)
            self.place(n, x, self.get(x, "last_child"), None)
        elif name == "prepend":
            self.gap(n)
            self.place(n, x, None, self.get(x, "first_child"))
        elif name == "insert_after":
            self.gap(n)
            self.place(n, self.get(x, "parent"), x, self.get(x, "next_sibling"))
        elif name == "insert_before":
            self.gap(n)
            self.place(n, self.get(x, "parent"), self.get(x, "previous_sibling"), x)
        elif name == "remove":
            P, A, B = self.get(x, "parent"), self.get(x, "previous_sibling"), self.get(x, "next_sibling")
            F, L = self.get(x, "first_child"), self.get(x, "last_child")
            self.gap(x)
            self.set(x, "first_child", None)
            self.set(x, "last_child", None)
            if F is not None:
                self.q = (x, P)
                # splice the child chain F..L between A and B under P
                A2 = A
                B2 = B
                self.set(F, "previous_sibling", A2)
                if A2 is not None:
                    self.set(A2, "next_sibling", F)
                elif P is not None:
                    self.set(P, "first_child", F)
                self.set(L, "next_sibling", B2)
                if B2 is not None:
                    self.set(B2, "previous_sibling", L)
                elif P is not None:
                    self.set(P, "last_child", L)
        else:
            raise Undecided("no model for " + name)

    def diff(self):
        """Extensional comparison of implementation post-heap and model post-heap on every field either touches."""
        st = self.v.st
        keys = set(self.M)
        for k, r in st.nodes.items():
            for f in LINKS:
                if f in r.cur:
                    keys.add((k, f))
        # quantified parts: compare on every named node in either quantified set and on a generic member
        if st.qwrites or self.q is not None:
            for qw in st.qwrites:
                g = _generic_member(self.v, qw)
                if g is not None:
                    for f in qw.writes:
                        keys.add((g, f))
            for k, r in list(st.nodes.items()):
                if r.fresh or not r.live0:
                    continue
                for qw in st.qwrites:
                    if qw.guard(self.v.I, st, k):
                        for f in qw.writes:
                            keys.add((k, f))
                if self.q is not None:
                    pk = st.h0_link(k, "parent")
                    if pk == self.q[0]:
                        keys.add((k, "parent"))
            if self.q is not None and not st.qwrites:
                out0 = [("children of %s" % self.q[0], "all re-parented to %s" % self.q[1], "no quantified write in the implementation")]
                # a generic child must agree too
                qq = QWriteProbe(self.q[0])
                g = _generic_member(self.v, qq)
                if g is not None:
                    keys.add((g, "parent"))
        out = []
        for (n, f) in sorted(keys):
            exp = self.get(n, f)
            act = self.v.post(n, f)
            if exp != act:
                out.append(("%s.%s" % (n, f), exp, act))
        return out


def j3_obligations(view):
    """Every changed parent edge m -> P must lead into a pre-state ancestor chain free of re-parented nodes."""
    st = view.st
    mods = []
    for k, r in st.nodes.items():
        if r.fresh or "parent" not in r.cur:
            continue
        a, b = view.pre(k, "parent"), view.post(k, "parent")
        if a != b:
            mods.append((k, b))
    bad = []
    for (m, P) in mods:
        if P is None or isinstance(P, tuple):
            continue
        for (m2, _) in mods:
            if m2 == P:
                bad.append(("J3|new parent edge into a re-parented node", "%s.parent := %s and %s is re-parented too" % (m, P, m2)))
                continue
            q = st.anc_query(m2, P)
            if q is None:
                def yes(s, a=m2, b=P):
                    s.anc[(a, b)] = True
                def no(s, a=m2, b=P):
                    s.anc[(a, b)] = False
                raise Fork([("anc(%s,%s)" % (m2, P), yes), ("!anc(%s,%s)" % (m2, P), no)], "J3 obligation")
            if q:
                bad.append(("J3|parent cycle", "%s.parent := %s while %s is a proper ancestor of %s in the pre-state" % (m, P, m2, P)))
    return bad
