"""Abstract values of the MIR interpreter (E2).  All values are immutable."""

I16_MIN, I16_MAX = -(1 << 15), (1 << 15) - 1
USIZE_MAX = (1 << 64) - 1
ISIZE_MAX = (1 << 63) - 1


def int_range(bits, signed):
    if signed:
        return -(1 << (bits - 1)), (1 << (bits - 1)) - 1
    return 0, (1 << bits) - 1


class Lin:
    """Integer term  k*sym + c  (sym None => constant).  Symbols are tuples, e.g. ('idx', n), ('st', n), ('len0',)."""
    __slots__ = ("k", "sym", "c")

    def __init__(self, c=0, sym=None, k=0):
        if sym is None or k == 0:
            sym, k = None, 0
        self.k, self.sym, self.c = k, sym, c

    def is_const(self):
        return self.sym is None

    def __eq__(self, o):
        return isinstance(o, Lin) and (self.k, self.sym, self.c) == (o.k, o.sym, o.c)

    def __hash__(self):
        return hash((self.k, self.sym, self.c))

    def __repr__(self):
        if self.sym is None:
            return str(self.c)
        s = "%s" % (self.sym,) if self.k == 1 else "%d*%s" % (self.k, self.sym)
        return s if self.c == 0 else "%s%+d" % (s, self.c)

    def add_const(self, d):
        return Lin(self.c + d, self.sym, self.k)

    def neg(self):
        return Lin(-self.c, self.sym, -self.k)


class V:
    """Base of structured values."""
    __slots__ = ()


class VInt(V):
    __slots__ = ("t", "bits", "signed")

    def __init__(self, t, bits=64, signed=False):
        if isinstance(t, int):
            t = Lin(t)
        self.t, self.bits, self.signed = t, bits, signed

    def __repr__(self):
        return "%r:%s%d" % (self.t, "i" if self.signed else "u", self.bits)

    def key(self):
        return ("int", self.t.k, self.t.sym, self.t.c)


class VBool(V):
    __slots__ = ("b",)

    def __init__(self, b):
        self.b = bool(b)

    def __repr__(self):
        return "true" if self.b else "false"

    def key(self):
        return ("bool", self.b)


class VUnit(V):
    __slots__ = ()

    def __repr__(self):
        return "()"

    def key(self):
        return ("unit",)


UNIT = VUnit()


class VTuple(V):
    __slots__ = ("items",)

    def __init__(self, items):
        self.items = tuple(items)

    def __repr__(self):
        return "(%s)" % ", ".join(map(repr, self.items))

    def key(self):
        return ("tuple",) + tuple(vkey(i) for i in self.items)


class VStruct(V):
    """Struct value: adt path + ordered field tuple ((name, value), ...)."""
    __slots__ = ("adt", "fields")

    def __init__(self, adt, fields):
        self.adt = adt
        self.fields = tuple(fields)

    def get(self, name):
        for n, v in self.fields:
            if n == name:
                return v
        raise KeyError(name)

    def with_field(self, name, val):
        return VStruct(self.adt, tuple((n, val if n == name else v) for n, v in self.fields))

    def __repr__(self):
        return "%s{%s}" % (self.adt.split("::")[-1], ", ".join("%s: %r" % f for f in self.fields))

    def key(self):
        return ("struct", self.adt) + tuple((n, vkey(v)) for n, v in self.fields)


class VEnum(V):
    """Enum value with a known variant."""
    __slots__ = ("adt", "variant", "fields")

    def __init__(self, adt, variant, fields=()):
        self.adt, self.variant = adt, variant
        self.fields = tuple(fields)     # ((name, value), ...)

    def get(self, name):
        for n, v in self.fields:
            if n == name:
                return v
        raise KeyError(name)

    def with_field(self, name, val):
        return VEnum(self.adt, self.variant, tuple((n, val if n == name else v) for n, v in self.fields))

    def __repr__(self):
        if not self.fields:
            return self.variant
        return "%s(%s)" % (self.variant, ", ".join(repr(v) for _, v in self.fields))

    def key(self):
        return ("enum", self.adt, self.variant) + tuple((n, vkey(v)) for n, v in self.fields)


OPTION = "core::option::Option"
RESULT = "core::result::Result"


def none():
    return VEnum(OPTION, "None")


def some(v):
    return VEnum(OPTION, "Some", (("0", v),))


def ok(v):
    return VEnum(RESULT, "Ok", (("0", v),))


def err(v):
    return VEnum(RESULT, "Err", (("0", v),))


class VLazy(V):
    """The pre-state (H0) value of link field `field` of individual `n`, not yet materialised."""
    __slots__ = ("n", "field")

    def __init__(self, n, field):
        self.n, self.field = n, field

    def __repr__(self):
        return "H0[%s].%s" % (self.n, self.field)

    def key(self):
        return ("lazy", self.n, self.field)


class VRef(V):
    """Reference / pointer to an abstract place: root + projection path."""
    __slots__ = ("root", "path", "mut")

    def __init__(self, root, path=(), mut=False):
        self.root, self.path, self.mut = root, tuple(path), mut

    def __repr__(self):
        return "&%s%s%s" % ("mut " if self.mut else "", self.root, "".join("." + str(p[-1]) for p in self.path))

    def key(self):
        return ("ref", self.root, self.path)


class VOpaque(V):
    """Payload tokens, strings, formatter handles: values the analysis never inspects."""
    __slots__ = ("tag", "id")

    def __init__(self, tag, id=None):
        self.tag, self.id = tag, id

    def __repr__(self):
        return "<%s%s>" % (self.tag, "" if self.id is None else ":" + str(self.id))

    def key(self):
        return ("opaque", self.tag, self.id)


class VStr(V):
    __slots__ = ("s",)

    def __init__(self, s):
        self.s = s

    def __repr__(self):
        return repr(self.s[:40])

    def key(self):
        return ("str", self.s)


class VFn(V):
    """Function item / closure without captures / fn pointer: resolved callee description (dict from facts)."""
    __slots__ = ("callee",)

    def __init__(self, callee):
        self.callee = callee

    def __repr__(self):
        return "fn %s" % (self.callee.get("key") or self.callee.get("path"))

    def key(self):
        return ("fn", self.callee.get("key") or self.callee.get("path"))


class VClosure(V):
    __slots__ = ("fnkey", "captures")

    def __init__(self, fnkey, captures):
        self.fnkey, self.captures = fnkey, tuple(captures)

    def __repr__(self):
        return "closure %s%r" % (self.fnkey.split("::")[-1], self.captures)

    def key(self):
        return ("closure", self.fnkey) + tuple(vkey(c) for c in self.captures)


class VNonZero(V):
    """core::num::NonZero<usize>: an integer term known to be non-zero."""
    __slots__ = ("t",)

    def __init__(self, t):
        self.t = t

    def __repr__(self):
        return "NZ(%r)" % (self.t,)

    def key(self):
        return ("nz", self.t.k, self.t.sym, self.t.c)


class VVec(V):
    """Handle of an abstract Vec object living in the heap (arena.nodes) or a fresh local one."""
    __slots__ = ("id",)

    def __init__(self, id):
        self.id = id

    def __repr__(self):
        return "Vec#%s" % (self.id,)

    def key(self):
        return ("vec", self.id)


class VSymBool(V):
    """A boolean field of an abstract sequence element that is decided lazily (forks over the element's allowed combinations)."""
    __slots__ = ("elem", "field")

    def __init__(self, elem, field):
        self.elem, self.field = elem, field

    def __repr__(self):
        return "?%s.%s" % (self.elem, self.field)

    def key(self):
        return ("symbool", self.elem, self.field)


class VPy(V):
    """Immutable holder for analysis-internal structured values (sequence handles, slices, iterators, symbolic strings)."""
    __slots__ = ("tag", "data")

    def __init__(self, tag, data):
        self.tag, self.data = tag, data

    def __repr__(self):
        return "<%s %r>" % (self.tag, self.data)

    def key(self):
        return ("py", self.tag, repr(self.data))


class VUninit(V):
    __slots__ = ()

    def __repr__(self):
        return "uninit"

    def key(self):
        return ("uninit",)


UNINIT = VUninit()


def vkey(v):
    return v.key() if isinstance(v, V) else ("py", repr(v))
