"""Std-library boundary of E2: hand-written models of the documented behaviour (DESIGN 4.4)."""
from .values import *
from .state import *

START = object()
MODELS = {}
NATIVES = {}
CF = "core::ops::control_flow::ControlFlow"


def model(*names):
    def deco(fn):
        for n in names:
            MODELS[n] = fn
        return fn
    return deco


def native(name):
    def deco(fn):
        NATIVES[name] = fn
        return fn
    return deco


def lookup(name, c):
    if name in MODELS:
        return MODELS[name]
    return None


class PureReturn(Exception):
    def __init__(self, value):
        self.value = value


@native("barrier")
def n_barrier(I, st, data, value):
    raise PureReturn(value)


# ------------------------------------------------------------------ helpers
def deref(I, st, v):
    v = I.force(st, v)
    if isinstance(v, VRef):
        return I.force(st, I.load(st, v.root, v.path))
    raise Undecided("expected a reference, got %r" % (v,))


def as_opt(I, st, v):
    v = I.force(st, v)
    if isinstance(v, VEnum) and v.adt == OPTION:
        return v
    raise Undecided("expected Option, got %r" % (v,))


def panic(kind, msg, span):
    raise Panic(kind, msg, span)


def values_equal(I, st, a, b):
    """Structural equality = derived PartialEq (callers check derivedness for local ADTs)."""
    if isinstance(a, VLazy) and isinstance(b, VLazy) and a.key() == b.key():
        return True
    a, b = I.force(st, a), I.force(st, b)
    if isinstance(a, VRef) and isinstance(b, VRef):
        return values_equal(I, st, I.load(st, a.root, a.path), I.load(st, b.root, b.path))
    if isinstance(a, VInt) and isinstance(b, VInt):
        return I.cmp(st, a.t, b.t, "Eq")
    if isinstance(a, VNonZero) and isinstance(b, VNonZero):
        return I.cmp(st, a.t, b.t, "Eq")
    if isinstance(a, VBool) and isinstance(b, VBool):
        return a.b == b.b
    if isinstance(a, VUnit) and isinstance(b, VUnit):
        return True
    if isinstance(a, VEnum) and isinstance(b, VEnum) and a.adt == b.adt:
        _require_derived_eq(I, a.adt)
        if a.variant != b.variant:
            return False
        return all(values_equal(I, st, x, y) for (_, x), (_, y) in zip(a.fields, b.fields))
    if isinstance(a, VStruct) and isinstance(b, VStruct) and a.adt == b.adt:
        _require_derived_eq(I, a.adt)
        return all(values_equal(I, st, x, y) for (_, x), (_, y) in zip(a.fields, b.fields))
    if isinstance(a, VTuple) and isinstance(b, VTuple) and len(a.items) == len(b.items):
        return all(values_equal(I, st, x, y) for x, y in zip(a.items, b.items))
    if isinstance(a, VStr) and isinstance(b, VStr):
        return a.s == b.s
    raise Undecided("equality of %r and %r" % (a, b))


def _require_derived_eq(I, adt):
    if not adt.startswith("crate::"):
        return
    k = I.impl_index.get(("core::cmp::PartialEq", "eq", adt))
    if k is None or not I.fns[k].get("impl_derived"):
        raise Undecided("PartialEq of %s is not compiler-derived: structural equality cannot be assumed" % adt)


# ------------------------------------------------------------------ panics
@model("core::panicking::panic", "core::panicking::panic_fmt", "core::panicking::panic_display", "core::panicking::panic_explicit",
       "core::panicking::unreachable_display", "core::panicking::panic_nounwind", "std::rt::begin_panic", "core::panicking::panic_str_2015")
def m_panic(I, st, args, c, dest, target, span):
    msg = args[0].s if args and isinstance(args[0], VStr) else "panic"
    panic("panic", msg, span)


@model("core::panicking::assert_failed")
def m_assert_failed(I, st, args, c, dest, target, span):
    panic("assert_failed", "assertion `left == right` failed", span)


@model("core::option::expect_failed", "core::option::unwrap_failed", "core::result::unwrap_failed")
def m_expect_failed(I, st, args, c, dest, target, span):
    panic("expect", "unwrap/expect failed", span)


# ------------------------------------------------------------------ fmt plumbing (opaque)
@model("core::fmt::Arguments::<'a>::new", "core::fmt::Arguments::<'a>::from_str", "core::fmt::Arguments::<'a>::from_str_nonconst",
       "core::fmt::Arguments::<'a>::new_const", "core::fmt::Arguments::<'a>::new_v1", "core::fmt::rt::Argument::<'_>::new_display",
       "core::fmt::rt::Argument::<'_>::new_debug", "core::fmt::Arguments::<'a>::new_v1_formatted")
def m_fmt_opaque(I, st, args, c, dest, target, span):
    return VOpaque("fmt")


# ------------------------------------------------------------------ Option
@model("core::option::Option::<T>::is_some")
def m_is_some(I, st, args, c, dest, target, span):
    return VBool(as_opt(I, st, deref(I, st, args[0])).variant == "Some")


@model("core::option::Option::<T>::is_none")
def m_is_none(I, st, args, c, dest, target, span):
    return VBool(as_opt(I, st, deref(I, st, args[0])).variant == "None")


@model("core::option::Option::<T>::unwrap")
def m_unwrap(I, st, args, c, dest, target, span):
    o = as_opt(I, st, args[0])
    if o.variant == "None":
        panic("unwrap", "called `Option::unwrap()` on a `None` value", span)
    return o.get("0")


@model("core::option::Option::<T>::expect")
def m_expect(I, st, args, c, dest, target, span):
    o = as_opt(I, st, args[0])
    if o.variant == "None":
        panic("expect", args[1].s if isinstance(args[1], VStr) else "expect", span)
    return o.get("0")


@model("core::option::Option::<T>::unwrap_or")
def m_unwrap_or(I, st, args, c, dest, target, span):
    o = as_opt(I, st, args[0])
    return args[1] if o.variant == "None" else o.get("0")


@model("core::option::Option::<T>::or")
def m_or(I, st, args, c, dest, target, span):
    o = as_opt(I, st, args[0])
    return o if o.variant == "Some" else args[1]


@model("core::option::Option::<T>::and")
def m_and(I, st, args, c, dest, target, span):
    o = as_opt(I, st, args[0])
    return args[1] if o.variant == "Some" else none()


@model("core::option::Option::<T>::xor")
def m_xor(I, st, args, c, dest, target, span):
    a, b = as_opt(I, st, args[0]), as_opt(I, st, args[1])
    if a.variant == "Some" and b.variant == "None":
        return a
    if a.variant == "None" and b.variant == "Some":
        return b
    return none()


@model("core::option::Option::<T>::take")
def m_take(I, st, args, c, dest, target, span):
    r = I.force(st, args[0])
    if not isinstance(r, VRef):
        raise Undecided("take on non-ref")
    old = I.load(st, r.root, r.path)
    I.store(st, r.root, r.path, none(), span)
    return old


@model("core::option::Option::<T>::replace")
def m_replace(I, st, args, c, dest, target, span):
    r = I.force(st, args[0])
    old = I.load(st, r.root, r.path)
    I.store(st, r.root, r.path, some(args[1]), span)
    return old


@model("core::option::Option::<T>::insert", "core::option::Option::<T>::get_or_insert")
def m_opt_insert(I, st, args, c, dest, target, span):
    raise Undecided("Option::insert/get_or_insert")


@model("core::mem::replace")
def m_mem_replace(I, st, args, c, dest, target, span):
    r = I.force(st, args[0])
    old = I.load(st, r.root, r.path)
    if r.root[0] == "node" and not r.path:
        raise Undecided("mem::replace of a whole Node (relocation)")
    I.store(st, r.root, r.path, args[1], span)
    return old


@model("core::mem::take")
def m_mem_take(I, st, args, c, dest, target, span):
    r = I.force(st, args[0])
    old = I.force(st, I.load(st, r.root, r.path))
    if isinstance(old, VEnum) and old.adt == OPTION:
        I.store(st, r.root, r.path, none(), span)
        return old
    raise Undecided("mem::take of %r" % (old,))


@model("core::mem::swap")
def m_mem_swap(I, st, args, c, dest, target, span):
    a, b = I.force(st, args[0]), I.force(st, args[1])
    if (a.root[0] == "node" and not a.path) or (b.root[0] == "node" and not b.path):
        raise Undecided("mem::swap of whole Nodes (relocation)")
    va, vb = I.load(st, a.root, a.path), I.load(st, b.root, b.path)
    I.store(st, a.root, a.path, vb, span)
    I.store(st, b.root, b.path, va, span)
    return UNIT


@model("core::option::Option::<T>::as_ref", "core::option::Option::<T>::as_mut")
def m_as_ref(I, st, args, c, dest, target, span):
    r = I.force(st, args[0])
    o = as_opt(I, st, I.load(st, r.root, r.path))
    if o.variant == "None":
        return none()
    return some(VRef(r.root, r.path + (("variant", "Some"), ("field", "0")), r.mut))


@model("core::option::Option::<&T>::copied", "core::option::Option::<&T>::cloned", "core::option::Option::<&mut T>::copied")
def m_copied(I, st, args, c, dest, target, span):
    o = as_opt(I, st, args[0])
    if o.variant == "None":
        return none()
    return some(deref(I, st, o.get("0")))


@model("<core::option::Option<T> as core::clone::Clone>::clone", "core::clone::impls::<impl core::clone::Clone for &T>::clone")
def m_clone_copy(I, st, args, c, dest, target, span):
    r = I.force(st, args[0])
    v = I.load(st, r.root, r.path)
    return v


@model("core::option::Option::<T>::ok_or")
def m_ok_or(I, st, args, c, dest, target, span):
    o = as_opt(I, st, args[0])
    return err(args[1]) if o.variant == "None" else ok(o.get("0"))


@model("core::option::Option::<T>::zip")
def m_zip(I, st, args, c, dest, target, span):
    a, b = as_opt(I, st, args[0]), as_opt(I, st, args[1])
    if a.variant == "Some" and b.variant == "Some":
        return some(VTuple((a.get("0"), b.get("0"))))
    return none()


# closure-taking Option combinators ---------------------------------------------------------
def _opt_cb(name, on_none, wrap, by_ref=False, call_on_none=False):
    """Build model + native for `opt.<name>(f)` style combinators."""
    @native(name)
    def nat(I, st, data, value):
        stage = data[0]
        if value is START:
            o, f = data[1], data[2]
            return ("callv", f, [] if call_on_none else [_cb_arg(I, st, o, by_ref)], ("ret",) + tuple(data[1:]))
        return ("ret", wrap(I, st, data, value))

    def mdl(I, st, args, c, dest, target, span):
        o = as_opt(I, st, args[0])
        if call_on_none:
            if o.variant == "Some":
                return on_none(I, st, o, args)
            return I.start_native(st, name, ("start", o, args[1]) + tuple(args[2:]), dest, target, span)
        if o.variant == "None":
            return on_none(I, st, o, args)
        return I.start_native(st, name, ("start", o, args[-1]) + tuple(args[1:-1]), dest, target, span)
    return mdl


def _cb_arg(I, st, o, by_ref):
    x = o.get("0")
    if by_ref:
        return VRef(st.new_temp(x), (), False)
    return x


MODELS["core::option::Option::<T>::map"] = _opt_cb("opt_map", lambda I, st, o, a: none(), lambda I, st, d, v: some(v))
MODELS["core::option::Option::<T>::and_then"] = _opt_cb("opt_and_then", lambda I, st, o, a: none(), lambda I, st, d, v: v)
MODELS["core::option::Option::<T>::map_or"] = _opt_cb("opt_map_or", lambda I, st, o, a: a[1], lambda I, st, d, v: v)
MODELS["core::option::Option::<T>::is_some_and"] = _opt_cb("opt_is_some_and", lambda I, st, o, a: VBool(False), lambda I, st, d, v: v)
MODELS["core::option::Option::<T>::is_none_or"] = _opt_cb("opt_is_none_or", lambda I, st, o, a: VBool(True), lambda I, st, d, v: v)
MODELS["core::option::Option::<T>::or_else"] = _opt_cb("opt_or_else", lambda I, st, o, a: o, lambda I, st, d, v: v, call_on_none=True)
MODELS["core::option::Option::<T>::unwrap_or_else"] = _opt_cb("opt_unwrap_or_else", lambda I, st, o, a: o.get("0"), lambda I, st, d, v: v, call_on_none=True)


def _filter_wrap(I, st, data, v):
    v = I.force(st, v)
    if not isinstance(v, VBool):
        raise Undecided("filter predicate result")
    return data[1] if v.b else none()


MODELS["core::option::Option::<T>::filter"] = _opt_cb("opt_filter", lambda I, st, o, a: none(), _filter_wrap, by_ref=True)


@native("opt_map_or_else")
def n_map_or_else(I, st, data, value):
    if value is START:
        o, d, f = data[1], data[2], data[3]
        if o.variant == "None":
            return ("callv", d, [], ("ret",))
        return ("callv", f, [o.get("0")], ("ret",))
    return ("ret", value)


@model("core::option::Option::<T>::map_or_else")
def m_map_or_else(I, st, args, c, dest, target, span):
    o = as_opt(I, st, args[0])
    return I.start_native(st, "opt_map_or_else", ("start", o, args[1], args[2]), dest, target, span)


# ------------------------------------------------------------------ Result
def as_res(I, st, v):
    v = I.force(st, v)
    if isinstance(v, VEnum) and v.adt == RESULT:
        return v
    raise Undecided("expected Result, got %r" % (v,))


@model("core::result::Result::<T, E>::expect")
def m_res_expect(I, st, args, c, dest, target, span):
    r = as_res(I, st, args[0])
    if r.variant == "Err":
        panic("expect", (args[1].s if isinstance(args[1], VStr) else "expect") + ": %r" % (r.get("0"),), span)
    return r.get("0")


@model("core::result::Result::<T, E>::unwrap")
def m_res_unwrap(I, st, args, c, dest, target, span):
    r = as_res(I, st, args[0])
    if r.variant == "Err":
        panic("unwrap", "called `Result::unwrap()` on an `Err` value: %r" % (r.get("0"),), span)
    return r.get("0")


@model("core::result::Result::<T, E>::is_ok")
def m_is_ok(I, st, args, c, dest, target, span):
    return VBool(as_res(I, st, deref(I, st, args[0])).variant == "Ok")


@model("core::result::Result::<T, E>::is_err")
def m_is_err(I, st, args, c, dest, target, span):
    return VBool(as_res(I, st, deref(I, st, args[0])).variant == "Err")


@model("core::result::Result::<T, E>::ok")
def m_res_ok(I, st, args, c, dest, target, span):
    r = as_res(I, st, args[0])
    return some(r.get("0")) if r.variant == "Ok" else none()


@model("<core::option::Option<T> as core::ops::try_trait::Try>::branch")
def m_opt_branch(I, st, args, c, dest, target, span):
    o = as_opt(I, st, args[0])
    if o.variant == "Some":
        return VEnum(CF, "Continue", (("0", o.get("0")),))
    return VEnum(CF, "Break", (("0", none()),))


@model("<core::option::Option<T> as core::ops::try_trait::FromResidual<core::option::Option<core::convert::Infallible>>>::from_residual")
def m_opt_from_residual(I, st, args, c, dest, target, span):
    return none()


@model("<core::result::Result<T, E> as core::ops::try_trait::Try>::branch")
def m_res_branch(I, st, args, c, dest, target, span):
    r = as_res(I, st, args[0])
    if r.variant == "Ok":
        return VEnum(CF, "Continue", (("0", r.get("0")),))
    return VEnum(CF, "Break", (("0", err(r.get("0"))),))


@model("<core::result::Result<T, F> as core::ops::try_trait::FromResidual<core::result::Result<core::convert::Infallible, E>>>::from_residual")
def m_res_from_residual(I, st, args, c, dest, target, span):
    r = as_res(I, st, args[0])
    return err(r.get("0"))


# ------------------------------------------------------------------ conversions
@model("core::convert::Into::into", "<T as core::convert::Into<U>>::into", "<T as core::convert::From<T>>::from",
       "<core::option::Option<T> as core::convert::From<T>>::from")
def m_into(I, st, args, c, dest, target, span):
    # only the two blanket std impls can apply when the target is Option<NodeId>: From<T> for T and From<T> for Option<T>
    targs = [I.prog.ty(i) for i in (c.get("decl_args") or []) if isinstance(i, int)]
    v = I.force(st, args[0]) if not isinstance(args[0], VLazy) else args[0]
    want_opt = any(t.get("path") == OPTION for t in targs[1:2]) or (c.get("path", "").startswith("<core::option::Option<T> as"))
    if isinstance(v, VLazy) or (isinstance(v, VEnum) and v.adt == OPTION):
        return v
    if isinstance(v, VStruct) and v.adt == NODEID and want_opt:
        return some(v)
    if not want_opt:
        return v
    raise Undecided("Into::into of %r" % (v,))


# ------------------------------------------------------------------ comparisons
@model("<core::option::Option<T> as core::cmp::PartialEq>::eq", "core::cmp::impls::<impl core::cmp::PartialEq<&B> for &A>::eq",
       "<core::num::nonzero::NonZero<T> as core::cmp::PartialEq>::eq", "core::cmp::impls::<impl core::cmp::PartialEq for i16>::eq",
       "core::cmp::impls::<impl core::cmp::PartialEq for usize>::eq", "core::cmp::impls::<impl core::cmp::PartialEq for bool>::eq",
       "core::cmp::impls::<impl core::cmp::PartialEq for ()>::eq")
def m_eq(I, st, args, c, dest, target, span):
    a, b = I.force(st, args[0]), I.force(st, args[1])
    return VBool(values_equal(I, st, a, b))


@model("core::cmp::PartialEq::ne", "<core::option::Option<T> as core::cmp::PartialEq>::ne",
       "core::cmp::impls::<impl core::cmp::PartialEq<&B> for &A>::ne")
def m_ne(I, st, args, c, dest, target, span):
    a, b = I.force(st, args[0]), I.force(st, args[1])
    return VBool(not values_equal(I, st, a, b))


# ------------------------------------------------------------------ integers
@model("core::num::nonzero::NonZero::<T>::get")
def m_nz_get(I, st, args, c, dest, target, span):
    v = I.force(st, args[0])
    if isinstance(v, VNonZero):
        return VInt(v.t, 64, False)
    raise Undecided("NonZero::get of %r" % (v,))


@model("core::num::nonzero::NonZero::<T>::new")
def m_nz_new(I, st, args, c, dest, target, span):
    v = I.force(st, args[0])
    if not isinstance(v, VInt):
        raise Undecided("NonZero::new of %r" % (v,))
    if I.cmp(st, v.t, Lin(0), "Eq"):
        return none()
    return some(VNonZero(v.t))


@model("core::num::<impl usize>::wrapping_add")
def m_wrapping_add(I, st, args, c, dest, target, span):
    a, b = I.force(st, args[0]), I.force(st, args[1])
    r = I.add_terms(a.t, b.t, 1)
    lo, hi = st.term_bounds(r)
    if lo is not None and hi <= USIZE_MAX:
        return VInt(r, 64, False)
    raise Undecided("wrapping_add may wrap: %r" % (r,))


@model("core::num::<impl usize>::checked_sub")
def m_checked_sub(I, st, args, c, dest, target, span):
    a, b = I.force(st, args[0]), I.force(st, args[1])
    # slice layout (language guarantee): a slot of the node vector lies at or above its start; another allocation lies entirely below or entirely above it
    if a.t.sym and b.t.sym == ("addr0",) and a.t.k == 1 and b.t.k == 1 and a.t.c == 0 and b.t.c == 0:
        if a.t.sym[0] == "addr":
            return some(VInt(Lin(0, ("off", a.t.sym[1]), 1), 64, False))
        if a.t.sym[0] == "addrf":
            if I.cmp(st, a.t, b.t, "Lt"):
                return none()
            st.bounds[("offf",)] = (0, ISIZE_MAX)
            return some(VInt(Lin(0, ("offf",), 1), 64, False))
    if I.cmp(st, a.t, b.t, "Lt"):
        return none()
    return some(VInt(I.add_terms(a.t, b.t, -1), 64, False))


@model("core::num::<impl i16>::is_negative")
def m_is_negative(I, st, args, c, dest, target, span):
    a = I.force(st, args[0])
    return VBool(I.cmp(st, a.t, Lin(0), "Lt"))


@model("core::num::<impl i16>::is_positive")
def m_is_positive(I, st, args, c, dest, target, span):
    a = I.force(st, args[0])
    return VBool(I.cmp(st, a.t, Lin(0), "Gt"))


@model("<i16 as core::default::Default>::default")
def m_i16_default(I, st, args, c, dest, target, span):
    return VInt(Lin(0), 16, True)


@model("core::num::<impl i16>::wrapping_neg", "core::num::<impl i16>::wrapping_add", "core::num::<impl i16>::wrapping_sub",
       "core::num::<impl i16>::saturating_add", "core::num::<impl i16>::checked_add", "core::num::<impl i16>::checked_neg",
       "core::num::<impl i16>::abs", "core::num::<impl i16>::saturating_sub", "core::num::<impl i16>::checked_sub")
def m_i16_misc(I, st, args, c, dest, target, span):
    return i16_op(I, st, c.get("path", "").rsplit("::", 1)[-1], [I.force(st, a) for a in args])


def i16_op(I, st, name, a):
    x = a[0].t
    y = a[1].t if len(a) > 1 else None
    if name in ("wrapping_neg", "checked_neg"):
        if I.cmp(st, x, Lin(I16_MIN), "Eq"):
            return VInt(Lin(I16_MIN), 16, True) if name == "wrapping_neg" else none()
        r = VInt(x.neg(), 16, True)
        return r if name == "wrapping_neg" else some(r)
    if name == "abs":
        if I.cmp(st, x, Lin(0), "Lt"):
            return VInt(x.neg(), 16, True)
        return VInt(x, 16, True)
    r = I.add_terms(x, y, 1 if "add" in name else -1)
    over_hi = I.cmp(st, r, Lin(I16_MAX), "Gt")
    over_lo = (not over_hi) and I.cmp(st, r, Lin(I16_MIN), "Lt")
    if name.startswith("checked"):
        return none() if (over_hi or over_lo) else some(VInt(r, 16, True))
    if name.startswith("saturating"):
        if over_hi:
            return VInt(Lin(I16_MAX), 16, True)
        if over_lo:
            return VInt(Lin(I16_MIN), 16, True)
        return VInt(r, 16, True)
    if over_hi or over_lo:
        if r.is_const():
            c0 = (r.c + 32768) % 65536 - 32768
            return VInt(Lin(c0), 16, True)
        raise Undecided("wrapping i16 arithmetic on a symbolic value")
    return VInt(r, 16, True)


# ------------------------------------------------------------------ Vec<Node<T>> / slices (the arena's node vector)
def is_nodes_vec(I, st, r):
    r = I.force(st, r)
    return isinstance(r, VRef) and r.root == ("arena",) and r.path == (("field", "nodes"),)


def slot_of_index(I, st, t):
    """Node addressed by an index term; None when provably out of range."""
    if t.sym and t.k == 1:
        if t.sym[0] == "idx" and t.c == 0:
            n = st.nodes[t.sym[1]]
            if n.invec:
                return t.sym[1]
            return None
        if t.sym[0] == "len0":
            pushed = st.meta.get("pushed", {})
            if t.c in pushed and st.nodes[pushed[t.c]].invec:
                return pushed[t.c]
            if t.c >= 0 and st.len.sym == ("len0",) and t.c >= st.len.c:
                return None
        if t.sym[0] == "oob":
            return None
    if t.is_const() and st.len.is_const() and t.c >= st.len.c:
        return None
    raise Undecided("index %r into the node vector cannot be related to a slot" % (t,))


@model("<alloc::vec::Vec<T, A> as core::ops::index::Index<I>>::index", "<alloc::vec::Vec<T, A> as core::ops::index::IndexMut<I>>::index_mut",
       "core::slice::index::<impl core::ops::index::Index<I> for [T]>::index", "core::slice::index::<impl core::ops::index::IndexMut<I> for [T]>::index_mut")
def m_vec_index(I, st, args, c, dest, target, span):
    if not is_nodes_vec(I, st, args[0]):
        raise Undecided("Index on a vector other than arena.nodes")
    i = I.force(st, args[1])
    if not isinstance(i, VInt):
        raise Undecided("Vec index by %r" % (i,))
    n = slot_of_index(I, st, i.t)
    if n is None:
        panic("bounds", "index out of bounds", span)
    return VRef(("node", n), (), "mut" in c.get("path", "") or "Mut" in c.get("path", ""))


@model("core::slice::<impl [T]>::get", "core::slice::<impl [T]>::get_mut")
def m_slice_get(I, st, args, c, dest, target, span):
    if not is_nodes_vec(I, st, args[0]):
        raise Undecided("get on a slice other than arena.nodes")
    i = I.force(st, args[1])
    if not isinstance(i, VInt):
        raise Undecided("slice get by %r" % (i,))
    n = slot_of_index(I, st, i.t)
    if n is None:
        return none()
    return some(VRef(("node", n), (), "mut" in c.get("path", "")))


@model("<alloc::vec::Vec<T, A> as core::ops::deref::Deref>::deref", "<alloc::vec::Vec<T, A> as core::ops::deref::DerefMut>::deref_mut",
       "alloc::vec::Vec::<T, A>::as_slice", "alloc::vec::Vec::<T, A>::as_mut_slice")
def m_vec_deref(I, st, args, c, dest, target, span):
    return I.force(st, args[0])


@model("alloc::vec::Vec::<T, A>::len", "core::slice::<impl [T]>::len")
def m_vec_len(I, st, args, c, dest, target, span):
    r = I.force(st, args[0])
    if is_nodes_vec(I, st, r):
        return VInt(st.len, 64, False)
    v = I.force(st, I.load(st, r.root, r.path))
    if isinstance(v, VVec) and v.id in st.meta.get("vecs", {}):
        return VInt(st.meta["vecs"][v.id], 64, False)
    raise Undecided("len of an unknown vector")


@model("alloc::vec::Vec::<T, A>::is_empty", "core::slice::<impl [T]>::is_empty")
def m_vec_is_empty(I, st, args, c, dest, target, span):
    if is_nodes_vec(I, st, args[0]):
        return VBool(I.cmp(st, st.len, Lin(0), "Eq"))
    r = I.force(st, args[0])
    v = I.force(st, I.load(st, r.root, r.path)) if isinstance(r, VRef) else r
    if isinstance(v, VVec) and v.id in st.meta.get("vecs", {}):
        return VBool(I.cmp(st, st.meta["vecs"][v.id], Lin(0), "Eq"))
    raise Undecided("is_empty of an unknown vector")


@model("alloc::vec::Vec::<T, A>::push")
def m_vec_push(I, st, args, c, dest, target, span):
    if not is_nodes_vec(I, st, args[0]):
        raise Undecided("push on a vector other than arena.nodes")
    v = I.force(st, args[1])
    if not (isinstance(v, VStruct) and v.adt == NODE):
        raise Undecided("push of %r" % (v,))
    if st.len.sym != ("len0",) and not st.len.is_const():
        raise Undecided("push with unknown length")
    nid = st.new_node(True, "push", fresh=True)
    n = st.nodes[nid]
    for name, val in v.fields:
        n.cur[name] = val
    n.invec = True
    pushed = dict(st.meta.get("pushed", {}))
    off = st.len.c
    pushed[off] = nid
    st.meta["pushed"] = pushed
    st.meta["pushed_base"] = st.len.sym
    st.len = st.len.add_const(1)
    st.events.append(("push", nid, I.prog.loc(span)))
    return UNIT


@model("alloc::vec::Vec::<T, A>::clear")
def m_vec_clear(I, st, args, c, dest, target, span):
    if not is_nodes_vec(I, st, args[0]):
        raise Undecided("clear on a vector other than arena.nodes")
    for n in st.nodes.values():
        n.invec = False
    st.len = Lin(0)
    st.vec_cleared = True
    st.events.append(("clear", I.prog.loc(span)))
    return UNIT


@model("alloc::vec::Vec::<T>::new")
def m_vec_new(I, st, args, c, dest, target, span):
    vecs = dict(st.meta.get("vecs", {}))
    vid = "v%d" % len(vecs)
    vecs[vid] = Lin(0)
    st.meta["vecs"] = vecs
    return VVec(vid)


@model("alloc::vec::Vec::<T>::with_capacity")
def m_vec_with_capacity(I, st, args, c, dest, target, span):
    vecs = dict(st.meta.get("vecs", {}))
    vid = "v%d" % len(vecs)
    vecs[vid] = Lin(0)
    st.meta["vecs"] = vecs
    st.events.append(("with_capacity", repr(I.force(st, args[0]))))
    return VVec(vid)


@model("alloc::vec::Vec::<T, A>::capacity")
def m_vec_capacity(I, st, args, c, dest, target, span):
    return VInt(Lin(0, ("cap",), 1), 64, False)


@model("alloc::vec::Vec::<T, A>::reserve", "alloc::vec::Vec::<T, A>::reserve_exact", "alloc::vec::Vec::<T, A>::shrink_to_fit")
def m_vec_reserve(I, st, args, c, dest, target, span):
    if not is_nodes_vec(I, st, args[0]):
        raise Undecided("reserve on unknown vector")
    st.events.append(("capacity-change", c.get("path"), repr(I.force(st, args[1])) if len(args) > 1 else None))
    return UNIT


@model("core::slice::<impl [T]>::iter", "core::slice::<impl [T]>::iter_mut")
def m_slice_iter(I, st, args, c, dest, target, span):
    if is_nodes_vec(I, st, args[0]):
        return VOpaque("nodes-iter", "mut" if "iter_mut" in c.get("path", "") else "shared")        # a fresh cursor at slot 0 of the node vector
    return VOpaque("slice-iter")


@model("<core::slice::iter::Iter<'a, T> as core::iter::traits::iterator::Iterator>::nth", "<core::slice::iter::IterMut<'a, T> as core::iter::traits::iterator::Iterator>::nth")
def m_slice_iter_nth(I, st, args, c, dest, target, span):
    """`nodes.iter().nth(i)` on a cursor that has not been advanced is `nodes.get(i)`; the cursor is used up afterwards (any later use is undecided)."""
    r = I.force(st, args[0])
    it = I.force(st, I.load(st, r.root, r.path)) if isinstance(r, VRef) else r
    if not (isinstance(it, VOpaque) and it.tag == "nodes-iter"):
        raise Undecided("nth on an iterator other than a fresh cursor over arena.nodes")
    i = I.force(st, args[1])
    if not isinstance(i, VInt):
        raise Undecided("nth by %r" % (i,))
    if isinstance(r, VRef):
        I.store(st, r.root, r.path, VOpaque("nodes-iter-advanced"), span)
    n = slot_of_index(I, st, i.t)
    if n is None:
        return none()
    return some(VRef(("node", n), (), it.id == "mut"))


# ------------------------------------------------------------------ free list materialisation
def freelist_options(st, who, field):
    """Refinements fixing H0 of arena.first_free_slot / arena.last_free_slot / NextFree link of a removed node (J6)."""
    opts = []

    def members():
        return [k for k, r in st.nodes.items() if not r.fresh and not r.live0]

    def idxval(k):
        return some(VInt(Lin(0, ("idx", k), 1), 64, False))

    def mark_member(s, k):
        lo, hi = s.bounds[("st", k)]
        lo = max(lo, I16_MIN + 1)
        if lo > hi:
            raise Infeasible("exhausted slot on the free list")
        s.bounds[("st", k)] = (lo, hi)
        fl = set(s.meta.get("freelist", ()))
        fl.add(k)
        s.meta["freelist"] = frozenset(fl)

    if who == "arena":
        other = "last_free_slot" if field == "first_free_slot" else "first_free_slot"

        def o_none(s):
            s.arena_h0[field] = none()
            if other in s.arena_h0 and s.arena_h0[other].variant != "None":
                raise Infeasible("J6: one free-list end None")
            s.arena_h0[other] = none()
            if s.meta.get("freelist"):
                raise Infeasible("J6: members but empty list")
        opts.append(("arena.%s=None" % field, o_none))
        for k in members():
            def o_ex(s, k=k):
                s.arena_h0[field] = idxval(k)
                mark_member(s, k)
                check_freelist(s)
            opts.append(("arena.%s=%s" % (field, k), o_ex))

        def o_new(s):
            k = s.new_node(False, "H0 arena." + field)
            s.arena_h0[field] = idxval(k)
            mark_member(s, k)
            check_freelist(s)
        opts.append(("arena.%s=new" % field, o_new))
        return opts
    # NextFree link of removed node `who`
    def n_none(s):
        s.nodes[who].h0["nextfree"] = none()
        check_freelist(s)
    opts.append(("%s.nextfree=None" % who, n_none))
    for k in members():
        if k == who:
            continue
        def n_ex(s, k=k):
            s.nodes[who].h0["nextfree"] = idxval(k)
            mark_member(s, k)
            check_freelist(s)
        opts.append(("%s.nextfree=%s" % (who, k), n_ex))

    def n_new(s):
        k = s.new_node(False, "H0[%s].nextfree" % who)
        s.nodes[who].h0["nextfree"] = idxval(k)
        mark_member(s, k)
        check_freelist(s)
    opts.append(("%s.nextfree=new" % who, n_new))
    return opts


def fl_target(v):
    """node id or None for an Option<usize> free-list value; 'unk' if not materialised."""
    if v is None or isinstance(v, VLazy):
        return "unk"
    if isinstance(v, VEnum) and v.variant == "None":
        return None
    t = v.get("0").t
    return t.sym[1]


def check_freelist(s):
    """Consistency of the materialised part of the pre-state free list with J6."""
    first = fl_target(s.arena_h0.get("first_free_slot"))
    last = fl_target(s.arena_h0.get("last_free_slot"))
    if first is None and last not in ("unk", None):
        raise Infeasible("J6 ends")
    if last is None and first not in ("unk", None):
        raise Infeasible("J6 ends")
    nxt = {}
    for k, r in s.nodes.items():
        if not r.fresh and not r.live0 and "nextfree" in r.h0:
            nxt[k] = fl_target(r.h0["nextfree"])
    members = set(s.meta.get("freelist", ()))
    # injectivity and no self loops
    seen = {}
    for k, t in nxt.items():
        if t is None:
            continue
        if t == k:
            raise Infeasible("J6 self loop")
        if t in seen:
            raise Infeasible("J6: two predecessors")
        seen[t] = k
        if first not in ("unk", None) and t == first:
            raise Infeasible("J6: head has a predecessor")
    if last not in ("unk", None):
        if nxt.get(last, None) not in (None,) and last in nxt:
            raise Infeasible("J6: tail has a successor")
    for k in members:
        if k in nxt and nxt[k] is None and last not in ("unk",) and last != k:
            raise Infeasible("J6: member without successor is not the tail")
    # walk from first: no cycle
    c = first
    vis = set()
    while c not in ("unk", None):
        if c in vis:
            raise Infeasible("J6 cycle")
        vis.add(c)
        c = nxt.get(c, "unk")


# ------------------------------------------------------------------ iterators
ITER = "core::iter::traits::iterator::Iterator"


def iter_next_key(I, c, pos=0):
    """Key of the local `Iterator::next` implementation for the iterator type in generic-arg position `pos`."""
    targs = [a for a in (c.get("args") or c.get("decl_args") or []) if isinstance(a, int)]
    if not targs:
        return None, None
    t = I.prog.ty(targs[pos])
    return I.impl_index.get((ITER, "next", t.get("path"))), t


def chain_membership(I, st, start, field, k):
    """Is individual k on the `field`-chain starting at individual `start` (inclusive)?  True/False or Fork."""
    if k == start:
        return True
    if field == "parent":
        q = st.anc_query(k, start)
        if q is None:
            def yes(s):
                s.anc[(k, start)] = True
            def no(s):
                s.anc[(k, start)] = False
            raise Fork([("anc(%s,%s)" % (k, start), yes), ("!anc(%s,%s)" % (k, start), no)], "is %s an ancestor of %s" % (k, start))
        return q
    raise Undecided("chain membership along " + field)


@model("core::iter::traits::iterator::Iterator::any")
def m_iter_any(I, st, args, c, dest, target, span):
    nk, ity = iter_next_key(I, c)
    if nk is None:
        raise Undecided("Iterator::any on a non-local iterator %s" % (ity and ity.get("s")))
    proto = I.chain_protocol(nk)
    if proto is None:
        raise Undecided("Iterator::any: `%s` is not a pure single-link chain walk (no summary)" % nk)
    itref = I.force(st, args[0])
    itval = I.force(st, I.load(st, itref.root, itref.path))
    cur = I.force(st, I.navigate(st, itval, proto["cursor_path"]))
    if not (isinstance(cur, VEnum) and cur.adt == OPTION):
        raise Undecided("iterator cursor %r" % (cur,))
    # the iterator is consumed by the summary
    I.store(st, itref.root, itref.path + proto["cursor_path"], VOpaque("consumed-iterator"), span)
    if cur.variant == "None":
        return VBool(False)
    start = st.node_of_id(cur.get("0"))
    if start is None:
        raise Undecided("iterator cursor is not a node id")
    f = args[1]
    # predicate on an individual that is none of the named ones must be false (then only named individuals matter)
    sc = st.copy()
    other = sc.new_node(True, "unnamed chain member")
    try:
        vo, _, wo = I.run_pure(sc, f, [sc.id_of(other)], "any-predicate(other)")
    except Fork:
        raise Undecided("Iterator::any: predicate on an unnamed node depends on the heap")
    vo = I.force(sc, vo)
    if wo or not isinstance(vo, VBool) or vo.b:
        raise Undecided("Iterator::any: predicate is not an identity test (true on an unnamed node or has effects)")
    hits = []
    for k, r in st.nodes.items():
        if r.fresh or not r.live0:
            # a removed/fresh slot cannot be on a pre-state parent chain of a live node (J0)
            continue
        vk, _, wk = I.run_pure(st, f, [st.id_of(k)], "any-predicate")
        vk = I.force(st, vk)
        if wk or not isinstance(vk, VBool):
            raise Undecided("Iterator::any: predicate has effects")
        if vk.b:
            hits.append(k)
    st.meta["summaries"] = st.meta.get("summaries", ()) + (("any", proto["field"], start, tuple(hits)),)
    if not st.nodes[start].live0:
        # chain of a removed node: J5 => no links
        return VBool(start in hits)
    for k in hits:
        if chain_membership(I, st, start, proto["field"], k):
            return VBool(True)
    return VBool(False)


# ------------------------------------------------------------------ iterator adaptors executed by unrolling (no summary)
SKIP = "core::iter::adapters::skip::Skip"


@model("core::iter::traits::iterator::Iterator::skip")
def m_iter_skip(I, st, args, c, dest, target, span):
    return VStruct(SKIP, (("iter", args[0]), ("n", I.force(st, args[1]))))


def resolve_iter(I, st, itref, ity):
    """(reference to the innermost local iterator, its `next` key, number of elements still to skip, ref to the skip counter)."""
    if ity.get("path") == SKIP:
        sk = I.force(st, I.load(st, itref.root, itref.path))
        n = sk.get("n")
        if not (isinstance(n, VInt) and n.t.is_const()):
            raise Undecided("Skip with a symbolic count")
        inner_ty = I.prog.ty(ity["args"][0])
        iref, nk, n2, _ = resolve_iter(I, st, VRef(itref.root, itref.path + (("field", "iter"),), True), inner_ty)
        return iref, nk, n.t.c + n2, VRef(itref.root, itref.path + (("field", "n"),), True)
    nk = I.impl_index.get((ITER, "next", ity.get("path")))
    if nk is None:
        raise Undecided("iteration over a non-local iterator type %s" % ity.get("s"))
    return itref, nk, 0, None


def _unrolled(name, on_item, on_end, pred_by_ref):
    """Generic `loop { match it.next() { None => on_end, Some(x) => f(x) ... } }` native."""
    @native(name)
    def nat(I, st, data, value):
        stage = data[0]
        if value is START:
            _, iref, nk, skip, f = data
            return ("call", nk, [iref], ("next", iref, nk, skip, f))
        if stage == "next":
            _, iref, nk, skip, f = data
            o = as_opt(I, st, value)
            if o.variant == "None":
                return ("ret", on_end())
            item = o.get("0")
            if skip > 0:
                return ("call", nk, [iref], ("next", iref, nk, skip - 1, f))
            arg = VRef(st.new_temp(item), (), False) if pred_by_ref else item
            return ("callv", f, [arg], ("pred", iref, nk, 0, f, item))
        if stage == "pred":
            _, iref, nk, skip, f, item = data
            r = on_item(I, st, item, I.force(st, value))
            if r is not None:
                return ("ret", r)
            return ("call", nk, [iref], ("next", iref, nk, 0, f))
        raise Undecided("bad stage")

    def mdl(I, st, args, c, dest, target, span):
        targs = [a for a in (c.get("args") or []) if isinstance(a, int)]
        ity = I.prog.ty(targs[0])
        itref = I.force(st, args[0])
        iref, nk, skip, nref = resolve_iter(I, st, itref, ity)
        if nref is not None:
            I.store(st, nref.root, nref.path, VInt(Lin(0), 64, False), span)
        return I.start_native(st, name, ("start", iref, nk, skip, args[1]), dest, target, span)
    return mdl


def _find_item(I, st, item, b):
    return some(item) if b.b else None


def _findmap_item(I, st, item, r):
    r = as_opt(I, st, r)
    return r if r.variant == "Some" else None


def _any_item(I, st, item, b):
    return VBool(True) if b.b else None


def _all_item(I, st, item, b):
    return VBool(False) if not b.b else None


MODELS["core::iter::traits::iterator::Iterator::find"] = _unrolled("it_find", _find_item, none, True)
MODELS["core::iter::traits::iterator::Iterator::find_map"] = _unrolled("it_find_map", _findmap_item, none, False)
MODELS["core::iter::traits::iterator::Iterator::all"] = _unrolled("it_all", _all_item, lambda: VBool(True), False)
_any_unrolled = _unrolled("it_any", _any_item, lambda: VBool(False), False)
_any_summary = MODELS["core::iter::traits::iterator::Iterator::any"]


def m_iter_any_dispatch(I, st, args, c, dest, target, span):
    """Summarise when the iterator is a pure single-link chain walk (possibly under `skip(n)`) and the predicate an identity test; otherwise unroll."""
    nk, ity = iter_next_key(I, c)
    if nk is not None and I.chain_protocol(nk) is not None:
        return _any_summary(I, st, args, c, dest, target, span)
    if ity is not None and ity.get("path") == SKIP:
        # Skip<chain walker>: advance the verified walker n times along its link, then summarise the rest
        inner_ty = I.prog.ty(ity["args"][0])
        ink = I.impl_index.get((ITER, "next", inner_ty.get("path")))
        proto = I.chain_protocol(ink) if ink else None
        itref = I.force(st, args[0])
        sk = I.force(st, I.load(st, itref.root, itref.path))
        n = sk.get("n") if isinstance(sk, VStruct) and sk.adt == SKIP else None
        if proto is not None and isinstance(n, VInt) and n.t.is_const() and 0 <= n.t.c <= 4:
            inner_ref = VRef(itref.root, itref.path + (("field", "iter"),), True)
            cpath = inner_ref.path + proto["cursor_path"]
            for _ in range(n.t.c):
                cur = I.force(st, I.load(st, inner_ref.root, cpath))
                if isinstance(cur, VEnum) and cur.variant == "Some":
                    k = st.node_of_id(cur.get("0"))
                    if k is None:
                        raise Undecided("iterator cursor is not a node id")
                    nxt = I.read_node_field(st, k, proto["field"])
                    I.store(st, inner_ref.root, cpath, nxt, span)
            I.store(st, itref.root, itref.path + (("field", "n"),), VInt(Lin(0), 64, False), span)
            c2 = dict(c)
            c2["args"] = [ity["args"][0]] + list((c.get("args") or [])[1:])
            return _any_summary(I, st, [inner_ref] + list(args[1:]), c2, dest, target, span)
    return _any_unrolled(I, st, args, c, dest, target, span)


MODELS["core::iter::traits::iterator::Iterator::any"] = m_iter_any_dispatch


# ------------------------------------------------------------------ addresses of slots (get_node_id)
RANGE = "core::ops::range::Range"


@model("core::slice::<impl [T]>::as_ptr_range")
def m_as_ptr_range(I, st, args, c, dest, target, span):
    if not is_nodes_vec(I, st, args[0]):
        raise Undecided("as_ptr_range of an unknown slice")
    return VStruct(RANGE, (("start", VOpaque("nodes-ptr-start")), ("end", VOpaque("nodes-ptr-end"))))


@model("alloc::vec::Vec::<T, A>::as_ptr", "core::slice::<impl [T]>::as_ptr")
def m_as_ptr(I, st, args, c, dest, target, span):
    if not is_nodes_vec(I, st, args[0]):
        raise Undecided("as_ptr of an unknown vector")
    return VOpaque("nodes-ptr-start")


@model("core::ptr::const_ptr::<impl *const T>::wrapping_add", "core::ptr::const_ptr::<impl *const T>::add")
def m_ptr_add(I, st, args, c, dest, target, span):
    p, n = I.force(st, args[0]), I.force(st, args[1])
    if isinstance(p, VOpaque) and p.tag == "nodes-ptr-start" and isinstance(n, VInt):
        if n.t == st.len:
            return VOpaque("nodes-ptr-end")           # start + len elements: the one-past-the-end pointer of the node vector (as_ptr_range().end)
        if n.t.sym is None and n.t.c == 0:
            return p
    raise Undecided("pointer arithmetic %r + %r" % (p, n))


@model("core::ops::range::Range::<Idx>::contains")
def m_range_contains(I, st, args, c, dest, target, span):
    r = deref(I, st, args[0])
    if not (isinstance(r, VStruct) and r.adt == RANGE and isinstance(r.get("start"), VOpaque) and r.get("start").tag == "nodes-ptr-start"):
        raise Undecided("Range::contains on an unknown range")
    p = I.force(st, args[1])
    while isinstance(p, VRef) and p.root[0] != "node" and p.root[0] != "foreign":
        p = I.force(st, I.load(st, p.root, p.path))
    if isinstance(p, VRef) and p.root[0] == "node" and not p.path:
        # distinct allocations are disjoint; a slot of this arena lies inside its own slice
        return VBool(st.nodes[p.root[1]].invec)
    if isinstance(p, VRef) and p.root[0] == "foreign":
        return VBool(False)
    raise Undecided("Range::contains of %r" % (p,))


@model("core::mem::size_of")
def m_size_of(I, st, args, c, dest, target, span):
    targs = [I.prog.ty(a) for a in (c.get("args") or []) if isinstance(a, int)]
    if targs and targs[0].get("path") == NODE:
        st.bounds[("size",)] = (1, ISIZE_MAX)        # Node<T> is never zero-sized (it holds a stamp)
        return VInt(Lin(0, ("size",), 1), 64, False)
    raise Undecided("size_of of an unexpected type")


@model("<I as core::iter::traits::collect::IntoIterator>::into_iter", "core::iter::traits::iterator::Iterator::by_ref")
def m_into_iter_identity(I, st, args, c, dest, target, span):
    # `impl<I: Iterator> IntoIterator for I` is the identity; by_ref returns the same `&mut I`
    return args[0]


# closure-taking Result combinators and a few more Option/bool helpers ---------------------------------
def as_res(I, st, v):
    v = I.force(st, v)
    if isinstance(v, VEnum) and v.adt == RESULT:
        return v
    raise Undecided("expected Result, got %r" % (v,))


def _res_cb(name, on_variant, other, wrap):
    """`res.<name>(f)`: f is called on the payload of `on_variant`; `other(I, st, r, args)` gives the result for the other variant."""
    @native(name)
    def nat(I, st, data, value):
        if value is START:
            r, f = data[1], data[2]
            return ("callv", f, [r.get("0")], ("ret",) + tuple(data[1:]))
        return ("ret", wrap(I, st, data, value))

    def mdl(I, st, args, c, dest, target, span):
        r = as_res(I, st, args[0])
        if r.variant != on_variant:
            return other(I, st, r, args)
        return I.start_native(st, name, ("start", r, args[-1]) + tuple(args[1:-1]), dest, target, span)
    return mdl


MODELS["core::result::Result::<T, E>::map"] = _res_cb("res_map", "Ok", lambda I, st, r, a: r, lambda I, st, d, v: ok(v))
MODELS["core::result::Result::<T, E>::map_err"] = _res_cb("res_map_err", "Err", lambda I, st, r, a: r, lambda I, st, d, v: err(v))
MODELS["core::result::Result::<T, E>::and_then"] = _res_cb("res_and_then", "Ok", lambda I, st, r, a: r, lambda I, st, d, v: v)
MODELS["core::result::Result::<T, E>::or_else"] = _res_cb("res_or_else", "Err", lambda I, st, r, a: r, lambda I, st, d, v: v)
MODELS["core::result::Result::<T, E>::unwrap_or_else"] = _res_cb("res_unwrap_or_else", "Err", lambda I, st, r, a: r.get("0"), lambda I, st, d, v: v)
MODELS["core::result::Result::<T, E>::is_ok_and"] = _res_cb("res_is_ok_and", "Ok", lambda I, st, r, a: VBool(False), lambda I, st, d, v: v)
MODELS["core::result::Result::<T, E>::is_err_and"] = _res_cb("res_is_err_and", "Err", lambda I, st, r, a: VBool(False), lambda I, st, d, v: v)
MODELS["core::result::Result::<T, E>::map_or"] = _res_cb("res_map_or", "Ok", lambda I, st, r, a: a[1], lambda I, st, d, v: v)


@model("core::result::Result::<T, E>::unwrap_or")
def m_res_unwrap_or(I, st, args, c, dest, target, span):
    r = as_res(I, st, args[0])
    return r.get("0") if r.variant == "Ok" else args[1]


@model("core::result::Result::<T, E>::err")
def m_res_err(I, st, args, c, dest, target, span):
    r = as_res(I, st, args[0])
    return some(r.get("0")) if r.variant == "Err" else none()


@model("core::result::Result::<T, E>::as_ref", "core::result::Result::<T, E>::as_mut")
def m_res_as_ref(I, st, args, c, dest, target, span):
    ref = I.force(st, args[0])
    if not isinstance(ref, VRef):
        raise Undecided("Result::as_ref on a non-reference")
    r = as_res(I, st, I.load(st, ref.root, ref.path))
    return VEnum(RESULT, r.variant, (("0", VRef(ref.root, ref.path + (("variant", r.variant), ("field", "0")), ref.mut)),))


@native("opt_ok_or_else")
def n_ok_or_else(I, st, data, value):
    if value is START:
        return ("callv", data[1], [], ("ret",))
    return ("ret", err(value))


@model("core::option::Option::<T>::ok_or_else")
def m_ok_or_else(I, st, args, c, dest, target, span):
    o = as_opt(I, st, args[0])
    if o.variant == "Some":
        return ok(o.get("0"))
    return I.start_native(st, "opt_ok_or_else", ("start", args[1]), dest, target, span)


@model("core::bool::<impl bool>::then_some")
def m_then_some(I, st, args, c, dest, target, span):
    b = I.force(st, args[0])
    if not isinstance(b, VBool):
        raise Undecided("then_some on %r" % (b,))
    return some(args[1]) if b.b else none()


@native("bool_then")
def n_bool_then(I, st, data, value):
    if value is START:
        return ("callv", data[1], [], ("ret",))
    return ("ret", some(value))


@model("core::bool::<impl bool>::then")
def m_bool_then(I, st, args, c, dest, target, span):
    b = I.force(st, args[0])
    if not isinstance(b, VBool):
        raise Undecided("then on %r" % (b,))
    if not b.b:
        return none()
    return I.start_native(st, "bool_then", ("start", args[1]), dest, target, span)


@model("core::option::Option::<T>::is_some_and_placeholder")
def _unused(I, st, args, c, dest, target, span):
    raise Undecided("placeholder")


@model("core::ops::function::FnMut::call_mut", "core::ops::function::Fn::call", "core::ops::function::FnOnce::call_once")
def m_fn_trait_call(I, st, args, c, dest, target, span):
    """A call through a generic `F: Fn*(..)` parameter: the callee is whatever closure / function value the argument holds."""
    f = I.force(st, args[0])
    guard = 0
    while isinstance(f, VRef) and guard < 4:
        f = I.force(st, I.load(st, f.root, f.path))
        guard += 1
    tup = I.force(st, args[1]) if len(args) > 1 else UNIT
    targs = list(tup.items) if isinstance(tup, VTuple) else []
    if not isinstance(f, (VClosure, VFn)):
        raise Undecided("call through a generic function parameter holding %r" % (f,))
    r = I.call_value(st, f, targs, dest, target, span)
    if r is None:
        return None
    return r[1]


from . import ppmodels as _ppmodels      # noqa: E402,F401  (sequence / string / sink models registered in front of the ones above)
