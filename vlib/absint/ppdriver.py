"""C14 driver steps: what the two `fmt` bodies and the edge-dispatch function do with the traversal, as step tables over an abstract tree.

    D0  prefix of fmt:      formats the payload of the start node x (and nothing else), builds a fresh writer, and hands the dispatch function a traversal
                            rooted at x whose next edge is the one after Start(x)
    D1  dispatch step:      next edge Start(c): opens one item whose `last` flag says whether c has no next sibling, and returns c (or c's payload);
                            End(c), c != x, non-empty stack: closes one item and goes on;   End(x), empty stack: returns None;   exhausted: returns None;
                            one edge is taken from the traversal per step
    D2  loop body of fmt:   dispatch says Some(c): formats the payload of exactly c through the impl's trait and asks again;   None: returns Ok
With C09 (the edges are the Euler tour of the subtree of x) and the writer's step table this is "exactly the subtree, in pre-order, one block per node, `last` = has no
later sibling".  Everything is found by type and use, not by private name.
"""
from .values import *
from .state import *
from . import ppmodels as pm
from . import itertables, driver as drv

TRAVERSE = "crate::traverse::Traverse"
EDGE = "crate::traverse::NodeEdge"
PRINTER = "crate::debug_pretty_print::DebugPrettyPrint"


class Setup(Exception):
    pass


def discover(I, d):
    prog = I.prog
    fmts = {}
    for (tr, m, adt), key in I.impl_index.items():
        if adt == PRINTER and m == "fmt" and tr in ("core::fmt::Display", "core::fmt::Debug"):
            fmts[tr.rsplit("::", 1)[-1]] = key
    if set(fmts) != {"Display", "Debug"}:
        raise Setup("Display/Debug impls of the printer not found")
    from .. import rules
    idx = rules.Index(prog)
    # the edge-dispatch function: the one function outside the writer that both opens and closes items, reachable from both fmt bodies
    own = set(d.get("own_methods", [])) | {d["write_str"]}
    users = (idx.users(d["open"]) & idx.users(d["close"])) - own
    reach = None
    for k in fmts.values():
        r_ = idx.reachable([k])
        reach = r_ if reach is None else (reach & r_)
    cands = []
    for k in sorted(users & (reach or set())):
        mir = prog.fns[k]["mir"]
        tys = [prog.tys(mir["locals"][i]["ty"]) for i in range(1, mir["arg_count"] + 1)]
        if any(d["writer"] in t and t.startswith("&") for t in tys) and any(TRAVERSE in t and t.startswith("&") for t in tys):
            cands.append((k, tys))
    if len(cands) != 1:
        raise Setup("cannot identify the edge-dispatch function (the function that opens and closes items; candidates %s)" % [c[0] for c in cands])
    key, tys = cands[0]
    wi = [i for i, t in enumerate(tys) if d["writer"] in t][0]
    ti = [i for i, t in enumerate(tys) if TRAVERSE in t][0]
    mir = prog.fns[key]["mir"]
    tty = prog.ty(prog.ty(mir["locals"][ti + 1]["ty"])["ty"])
    ret = prog.tys(mir["locals"][0]["ty"])
    nxt = I.impl_index.get(("core::iter::traits::iterator::Iterator", "next", TRAVERSE))
    if nxt is None:
        raise Setup("Iterator::next of Traverse not found")
    return {"fmts": fmts, "dispatch": key, "writer_arg": wi, "trav_arg": ti, "nargs": len(tys), "trav_ty": tty, "ret": ret, "trav_next": nxt}


def mk_traverser(I, st, dd, x, edge):
    """A Traverse value rooted at x whose pending edge is `edge` (a VEnum NodeEdge or None)."""
    def leaf(kind, path):
        if kind == "id":
            return st.id_of(x)
        if kind == "opt_edge":
            return none() if edge is None else some(edge)
        if kind == "edge":
            tnew = [k for k in I.fns if k.endswith("::new") and k.startswith(itertables.TRV + "Traverse<")]
            return VEnum(itertables.EDGE, itertables.closing_variant(I, tnew[0]), (("0", st.id_of(x)),))
        raise Undecided("unexpected leaf %s in Traverse" % kind)
    return itertables.build(I, dd["trav_ty"], leaf)


def trav_state(I, st, dd, v):
    v = I.force(st, v)
    while isinstance(v, VRef):
        v = I.force(st, I.load(st, v.root, v.path))
    view = __import__("vlib.absint.spec", fromlist=["View"]).View(I, st)
    roles = itertables.role_map(I, "Traverse", dd["trav_ty"], dd["trav_next"])
    return itertables.state_dict(view, lambda p: roles.get(tuple(p), "/".join(p)), v)


def ret_node(I, st, v):
    """Decode the dispatch function's value: ('ok-some', node) | ('ok-none',) | ('err',) | ('?', repr)."""
    v = I.force(st, v)
    if isinstance(v, VEnum) and v.adt == RESULT:
        if v.variant == "Err":
            return ("err",)
        v = I.force(st, v.get("0"))
    if isinstance(v, VEnum) and v.adt == OPTION:
        if v.variant == "None":
            return ("ok-none",)
        x = I.force(st, v.get("0"))
        if isinstance(x, VStruct) and x.adt == NODEID:
            return ("ok-some", st.node_of_id(x))
        n = pm.payload_node(I, st, x)
        if n is not None:
            return ("ok-some", n)
        if isinstance(x, VRef) and x.root[0] == "node" and not x.path:
            return ("ok-some", x.root[1])          # a reference to the node itself
        return ("?", repr(x))
    return ("?", repr(v))


def driver_entry(I, d, init_line, fields, arg_to_flag, li):
    """Returns (records, value of the `last` flag field that the driver pushes for a node without next sibling, or None)."""
    from . import ppstep
    recs = []
    dd = discover(I, d)
    recs.append({"entry": "ppstep", "step": "driver-setup", "exit": "return", "dispatch": dd["dispatch"], "fmts": dd["fmts"], "returns": dd["ret"]})
    heads = sorted(I.loop_heads(dd["dispatch"]))
    if len(heads) != 1:
        raise Setup("expected one loop in %s, found %d" % (dd["dispatch"], len(heads)))
    flagmap = {}
    ALL = pm.all_combos(I, d["elem"])
    stale = None

    def run_dispatch(edge_kind, alias, shape):
        out = []
        st = ppstep.base_state()
        x = st.new_node(True, "start node")
        if edge_kind is None:
            c = None
            edge = None
        else:
            c = x if alias else st.new_node(True, "generic node of the subtree")
            if not alias:
                st.anc[(x, c)] = True
            edge = VEnum(EDGE, edge_kind, (("0", st.id_of(c)),))
        st.propagate()
        items = ()
        if shape == "nonempty":
            g = pm.new_seg(I, st, d["elem"], ALL)
            top = pm.new_elem(I, st, d["elem"], ALL)
            items = (("g", g), ("e", top))
        wroot, sid = ppstep.mk_writer(I, st, d, init_line, items)
        troot = st.new_temp(mk_traverser(I, st, dd, x, edge))
        args = [None] * dd["nargs"]
        args[dd["writer_arg"]] = VRef(wroot, (), True)
        args[dd["trav_arg"]] = VRef(troot, (), True)
        if any(a is None for a in args):
            raise Setup("dispatch function has parameters besides the writer and the traversal")
        st.meta["watch"] = frozenset([dd["trav_next"], d["open"], d["close"]])
        s = st.copy()
        s.frames = []
        s.steps = 0
        I.push_call(s, dd["dispatch"], args, None, None)
        s.meta["stop_at"] = (s.frames[-1].uid, heads[0])
        s.meta["stop_armed"] = False
        I.explore([s], lambda t: out.append((t.kind, t.st, t.value, t.msg)), stop_kind="loophead")
        return out, x, c, wroot, troot, items

    cases = [("Start", False, "empty"), ("Start", False, "nonempty"), ("End", False, "nonempty"), ("End", True, "empty"), (None, False, "empty"), (None, False, "nonempty")]
    for (ek, alias, shape) in cases:
        outs, x, c, wroot, troot, pre_items = run_dispatch(ek, alias, shape)
        for (kind, s1, v1, m1) in outs:
            rec = {"entry": "ppstep", "step": "dispatch", "edge": ("%s(%s)" % (ek, "x" if alias else "c")) if ek else "exhausted", "stack": shape, "exit": kind, "msg": m1}
            if kind in ("return", "loophead"):
                calls = [e[1] for e in s1.events if e[0] == "call"]
                n_next = calls.count(dd["trav_next"])
                n_open = calls.count(d["open"])
                n_close = calls.count(d["close"])
                post = ppstep.stack_of(I, s1, d, wroot)
                pre2 = pm.check_items(s1, pre_items)
                why = []
                rv = ret_node(I, s1, v1) if kind == "return" else None
                rec["calls"] = {"next": n_next, "open": n_open, "close": n_close}
                rec["result"] = list(rv) if rv else None
                if n_next != 1:
                    why.append("takes %d edges from the traversal in one step" % n_next)
                if ek == "Start":
                    ns = s1.h0_link(c, "next_sibling")
                    if kind != "return" or rv != ("ok-some", c):
                        why.append("a Start edge does not return its node (%s %s)" % (kind, rv))
                    if n_open != 1 or n_close != 0 or post is None or len(post) != len(pre2) + 1 or tuple(post[:-1]) != tuple(pre2):
                        why.append("a Start edge does not open exactly one item")
                    elif ns == "unk":
                        why.append("the item is opened without looking at the node's next sibling")
                    else:
                        flag = pm.elem_combo_now(I, s1, post[-1][1])[li]
                        rec["next_sibling_none"] = (ns is None)
                        rec["flag"] = flag
                        flagmap.setdefault(ns is None, set()).add(flag)
                    for e in s1.events:
                        if e[0] in ("write", "write-arena", "push", "clear"):
                            why.append("the step writes to the arena")
                            break
                elif ek == "End" and not alias:
                    if kind != "loophead":
                        why.append("closing an inner node ends the step with %s %s" % (kind, rv))
                    if n_close != 1 or n_open != 0 or post is None or tuple(post) != tuple(pre2[:-1]):
                        why.append("an End edge of an inner node does not close exactly one item")
                elif ek == "End" and alias:
                    if kind != "return" or rv != ("ok-none",):
                        why.append("the End edge of the start node does not end the printing (%s %s)" % (kind, rv))
                    if n_open != 0 or post is None or tuple(post) != tuple(pre2):
                        why.append("the End edge of the start node changes the indent stack")
                else:
                    if kind != "return" or rv != ("ok-none",):
                        why.append("an exhausted traversal does not end the printing (%s %s)" % (kind, rv))
                    if n_open or n_close or post is None or tuple(post) != tuple(pre2):
                        why.append("an exhausted traversal changes the indent stack")
                rec["ok"] = not why
                rec["why"] = why
            recs.append(rec)
    last_flag = None
    if set(flagmap) == {True, False} and len(flagmap[True]) == 1 and len(flagmap[False]) == 1 and flagmap[True] != flagmap[False]:
        last_flag = next(iter(flagmap[True]))
        recs.append({"entry": "ppstep", "step": "dispatch-flag", "exit": "return", "ok": True, "flag_when_last": repr(last_flag), "flag_otherwise": repr(next(iter(flagmap[False])))})
    elif flagmap:
        recs.append({"entry": "ppstep", "step": "dispatch-flag", "exit": "return", "ok": False,
                     "why": ["the `last` flag of an opened item is not a function of `the node has no next sibling`: %s" % {k: sorted(map(repr, v)) for k, v in flagmap.items()}]})
    # ---- D0 / D2: the fmt bodies with the dispatch function stubbed
    for trait, fkey in sorted(dd["fmts"].items()):
        for alternate in (False, True):
            for variant in ("some-then-none", "none"):
                st = ppstep.base_state()
                st.meta["alternate"] = alternate
                x = st.new_node(True, "start node")
                c1 = st.new_node(True, "node reported by the dispatch function")
                st.anc[(x, c1)] = True
                st.propagate()
                if "NodeId" in dd["ret"]:
                    some_v = ok(some(st.id_of(c1)))
                elif "crate::node::Node<" in dd["ret"]:
                    some_v = ok(some(VRef(("node", c1), (), False)))
                elif "&" in dd["ret"]:
                    some_v = ok(some(VRef(("node", c1), (("field", "data"), ("variant", "Data"), ("field", "0")), False)))
                else:
                    raise Setup("dispatch function returns %s" % dd["ret"])
                st.meta["stubs"] = {dd["dispatch"]: [some_v, ok(none())] if variant == "some-then-none" else [ok(none())]}
                padt = I.prog.adts[PRINTER]
                fs = []
                for fd in padt["variants"][0]["fields"]:
                    t = I.prog.ty(fd["ty"])
                    inner = I.prog.ty(t["ty"]) if t["k"] == "ref" else {}
                    if inner.get("path") == NODEID:
                        fs.append((fd["name"], VRef(st.new_temp(st.id_of(x)), (), False)))
                    elif inner.get("path") == ARENA:
                        fs.append((fd["name"], drv.arena_ref(False)))
                    else:
                        raise Setup("printer field %s of unsupported type" % fd["name"])
                selfroot = st.new_temp(VStruct(PRINTER, fs))
                outs = []
                s = st.copy()
                s.frames = []
                I.push_call(s, fkey, [VRef(selfroot, (), False), VOpaque("sink")], None, None)
                I.explore([s], lambda t: outs.append((t.kind, t.st, t.value, t.msg)))
                for (kind, s1, v1, m1) in outs:
                    rec = {"entry": "ppstep", "step": "fmt", "trait": trait, "alternate": alternate, "dispatch_says": variant, "exit": kind, "msg": m1}
                    if kind == "return":
                        why = []
                        evs = [e for e in s1.events if e[0] in ("format", "stub-call")]
                        shape = [(e[0], e[2] if e[0] == "format" else e[2]) for e in evs]
                        want = [("format", x), ("stub-call", 0)] + ([("format", c1), ("stub-call", 1)] if variant == "some-then-none" else [])
                        if shape != want:
                            why.append("formats/asks in the order %s, expected %s" % (shape, want))
                        kinds = {e[1] for e in evs if e[0] == "format"}
                        if kinds - {trait.lower()}:
                            why.append("a payload is formatted through %s" % sorted(kinds))
                        tpls = [e[3] for e in evs if e[0] == "format"]
                        if len(set(tpls)) > 1:
                            why.append("the start node and its descendants are formatted with different templates")
                        rv = I.force(s1, v1)
                        if not (isinstance(rv, VEnum) and rv.variant == "Ok"):
                            why.append("returns %r" % (rv,))
                        sc = [e for e in s1.events if e[0] == "stub-call"]
                        if sc:
                            a = sc[0][4]
                            try:
                                ts = trav_state(I, s1, dd, a[dd["trav_arg"]])
                                fc = s1.h0_link(x, "first_child")
                                exp = ["Some", ["Start", fc]] if fc not in ("unk", None) else (["Some", ["End", x]] if fc is None else None)
                                got = ts.get("next")
                                got = [got[0], list(got[1])] if isinstance(got, tuple) and got and isinstance(got[1], tuple) else got
                                if ts.get("root") != x:
                                    why.append("the traversal is not rooted at the start node")
                                if exp is None or got != exp:
                                    why.append("the traversal handed to the dispatch function is at %s, expected the edge after Start(x) = %s" % (got, exp))
                                wv = a[dd["writer_arg"]]
                                sv = wv.get(d["roles"]["stack"][0][0]) if isinstance(wv, VStruct) else None
                                witems = s1.meta["seqs"].get(sv.data) if isinstance(sv, VPy) and sv.tag == "seqvec" else None
                                if witems != ():
                                    why.append("the writer handed to the dispatch function does not start with an empty indent stack")
                            except (Undecided, KeyError, AttributeError) as e:
                                why.append("cannot read the traversal/writer handed to the dispatch function: %s" % e)
                        for e in s1.events:
                            if e[0] in ("write", "write-arena", "push", "clear"):
                                why.append("printing writes to the arena")
                                break
                        rec["templates"] = sorted(set(tpls))
                        rec["ok"] = not why
                        rec["why"] = why
                    recs.append(rec)
    return recs, last_flag
