"""E1: structural rules over the resolved program (call graph, field sites, origins)."""
from .cfg import CFG
from .facts import Program


def callee_name(c):
    return Program.callee_name(c)


class Index:
    """Whole-crate indices built once per Program."""

    def __init__(self, prog):
        self.p = prog
        self.calls = {}      # fn key -> list of (bb, term, callee name)
        self.edges = {}      # fn key -> set of local callee keys (incl. closures constructed / coerced)
        self.ext = {}        # fn key -> set of external callee names
        self.callers = {}    # callee name -> list of (fn key, bb, term)
        self.cfgs = {}
        for f in prog.bodies():
            k = f["key"]
            cs, es, xs = [], set(), set()
            for bi, t in prog.calls(f):
                c = t["callee"]
                n = callee_name(c)
                cs.append((bi, t, n))
                self.callers.setdefault(n, []).append((k, bi, t))
                if c.get("local") and c.get("kind") in ("item", "closure_once_shim", "reify_shim", "fnptr_shim"):
                    es.add(c["key"])
                elif n != "<indirect>":
                    xs.add(n)
                # closures / fn items passed as arguments: their types name local bodies
                for a in t["args"]:
                    self._fn_values(f, a, es)
            for bi, si, s in prog.stmts(f):
                if s["k"] == "assign":
                    rv = s["rv"]
                    if rv["k"] == "aggregate" and rv.get("ak") == "closure":
                        es.add(rv["key"])
                    if rv["k"] == "cast" and rv.get("target"):
                        tg = rv["target"]
                        if tg.get("local") and tg.get("key"):
                            es.add(tg["key"])
                        elif tg.get("path"):
                            xs.add(tg["path"])
                    for o in _rv_operands(rv):
                        self._fn_values(f, o, es)
            self.calls[k] = cs
            self.edges[k] = {e for e in es if e in prog.fns}
            self.ext[k] = xs

    def _fn_values(self, f, op, es):
        if op.get("k") == "const" and "fn" in op:
            fn = op["fn"]
            if fn.get("local") and fn.get("key"):
                es.add(fn["key"])

    def cfg(self, key):
        if key not in self.cfgs:
            self.cfgs[key] = CFG(self.p.fns[key]["mir"])
        return self.cfgs[key]

    def reachable(self, roots):
        seen = set()
        st = [r for r in roots if r in self.p.fns]
        while st:
            k = st.pop()
            if k in seen:
                continue
            seen.add(k)
            for e in self.edges.get(k, ()):
                if e not in seen:
                    st.append(e)
        return seen

    def recursion(self):
        """Return a list of strongly connected components with a cycle (should be empty)."""
        index = {}
        low = {}
        onst = set()
        st = []
        out = []
        counter = [0]
        import sys
        sys.setrecursionlimit(10000)

        def sc(v):
            index[v] = low[v] = counter[0]
            counter[0] += 1
            st.append(v)
            onst.add(v)
            for w in self.edges.get(v, ()):
                if w not in index:
                    sc(w)
                    low[v] = min(low[v], low[w])
                elif w in onst:
                    low[v] = min(low[v], index[w])
            if low[v] == index[v]:
                comp = []
                while True:
                    w = st.pop()
                    onst.discard(w)
                    comp.append(w)
                    if w == v:
                        break
                if len(comp) > 1 or v in self.edges.get(v, ()):
                    out.append(sorted(comp))

        for v in self.edges:
            if v not in index:
                sc(v)
        return out

    def users(self, key):
        """Local functions that call `key`, construct it (closure) or take its address."""
        if not hasattr(self, "_users"):
            self._users = {}
            for k, es in self.edges.items():
                for e in es:
                    self._users.setdefault(e, set()).add(k)
        return self._users.get(key, set())

    def externally_callable(self, key):
        """May code outside the crate (or an implicit language mechanism) invoke this function directly?"""
        f = self.p.fns.get(key)
        if f is None:
            return True
        if f.get("impl_trait_path"):
            return True            # trait methods are invoked through the trait (Drop, fmt, Iterator, ...) wherever the type travels
        if f.get("vis") != "pub":
            return False
        if "impl_self_ty" in f:
            t = self.p.ty(f["impl_self_ty"])
            path = t.get("path")
            for a in self.p.j["adts"]:
                if a["path"] == path:
                    return a.get("vis") == "pub"
        return True

    def gated(self, key, gates, _seen=None):
        """Every way of reaching `key` goes through one of `gates`: key is a gate, or it cannot be invoked from outside and every local user is gated.
        A function nobody uses is vacuously gated (dead code)."""
        if key in gates:
            return True
        _seen = _seen if _seen is not None else set()
        if key in _seen:
            return True
        _seen.add(key)
        if self.externally_callable(key):
            return False
        return all(self.gated(u, gates, _seen) for u in self.users(key))

    def ungated_path(self, key, gates):
        """A witness chain [entry, ..., key] that avoids the gates (for diagnostics), or None."""
        seen = set()

        def go(k):
            if k in gates or k in seen:
                return None
            seen.add(k)
            if self.externally_callable(k):
                return [k]
            for u in sorted(self.users(k)):
                r = go(u)
                if r:
                    return r + [k]
            return None
        return go(key)

    def ext_callers(self, pred):
        """All (fn key, bb, term, name) whose external callee name satisfies pred."""
        out = []
        for k, cs in self.calls.items():
            for bi, t, n in cs:
                if n and not t["callee"].get("local") and pred(n):
                    out.append((k, bi, t, n))
        return out


def _rv_operands(rv):
    k = rv["k"]
    if k in ("use", "cast", "repeat"):
        return [rv["op"]]
    if k == "binop":
        return [rv["a"], rv["b"]]
    if k == "unop":
        return [rv["a"]]
    if k == "aggregate":
        return rv["ops"]
    return []


def place_fields(place):
    """[(adt, field name)] for every field projection of a place."""
    return [(e.get("adt"), e.get("name")) for e in place["p"] if e["k"] == "field"]


def last_field(place):
    fs = [e for e in place["p"] if e["k"] == "field"]
    return (fs[-1].get("adt"), fs[-1].get("name")) if fs else None


def field_sites(prog, adt, field=None):
    """Write / mutable-borrow / read sites of ADT fields.
    Returns list of dict(fn, bb, kind in {'write','mutref','read','ref'}, field, span, stmt)."""
    out = []

    def hits(place):
        return [(a, n) for (a, n) in place_fields(place) if a == adt and (field is None or n == field)]

    for f in prog.bodies():
        for bi, si, s in prog.stmts(f):
            if s["k"] == "assign":
                for (a, n) in hits(s["place"]):
                    # a write to place.field or to something below it
                    out.append({"fn": f["key"], "bb": bi, "kind": "write", "field": n, "span": s.get("span"), "stmt": s,
                                "exact": last_field(s["place"]) == (a, n) and s["place"]["p"][-1]["k"] == "field"})
                rv = s["rv"]
                if rv["k"] in ("ref", "rawptr"):
                    for (a, n) in hits(rv["place"]):
                        kind = "mutref" if (rv.get("mut") or rv["k"] == "rawptr") else "ref"
                        out.append({"fn": f["key"], "bb": bi, "kind": kind, "field": n, "span": s.get("span"), "stmt": s})
                else:
                    for o in _rv_operands(rv):
                        if o.get("k") in ("copy", "move"):
                            for (a, n) in hits(o["place"]):
                                out.append({"fn": f["key"], "bb": bi, "kind": "read", "field": n, "span": s.get("span"), "stmt": s})
                    if rv["k"] == "discr":
                        for (a, n) in hits(rv["place"]):
                            out.append({"fn": f["key"], "bb": bi, "kind": "read", "field": n, "span": s.get("span"), "stmt": s})
            elif s["k"] == "setdisc":
                for (a, n) in hits(s["place"]):
                    out.append({"fn": f["key"], "bb": bi, "kind": "write", "field": n, "span": s.get("span"), "stmt": s})
        for bi, t in prog.terms(f):
            ops = []
            if t["k"] == "call":
                ops = t["args"]
                for (a, n) in hits(t["dest"]):
                    out.append({"fn": f["key"], "bb": bi, "kind": "write", "field": n, "span": t.get("span"), "stmt": t})
            elif t["k"] == "switch":
                ops = [t["discr"]]
            elif t["k"] == "drop":
                for (a, n) in hits(t["place"]):
                    out.append({"fn": f["key"], "bb": bi, "kind": "write", "field": n, "span": t.get("span"), "stmt": t})
            for o in ops:
                if o.get("k") in ("copy", "move"):
                    for (a, n) in hits(o["place"]):
                        out.append({"fn": f["key"], "bb": bi, "kind": "read", "field": n, "span": t.get("span"), "stmt": t})
    return out


def aggregates(prog, adt):
    """Construction sites of an ADT value."""
    out = []
    for f in prog.bodies():
        for bi, si, s in prog.stmts(f):
            if s["k"] == "assign" and s["rv"]["k"] == "aggregate" and s["rv"].get("adt") == adt:
                out.append({"fn": f["key"], "bb": bi, "span": s.get("span"), "stmt": s, "variant": s["rv"].get("variant")})
    return out


def defs_of_local(f, l):
    """All statements/terminators that assign local l (whole local)."""
    out = []
    for bi, b in enumerate(f["mir"]["blocks"]):
        for si, s in enumerate(b["stmts"]):
            if s["k"] == "assign" and s["place"]["l"] == l and not s["place"]["p"]:
                out.append(("stmt", bi, si, s))
        t = b["term"]
        if t["k"] == "call" and t["dest"]["l"] == l and not t["dest"]["p"]:
            out.append(("call", bi, None, t))
    return out


def origin(prog, f, op, depth=12):
    """Value-flow origin of an operand inside one body, through copies/moves/reborrows:
    returns a set of descriptors: ('arg', n, path) | ('call', callee name, bb) | ('const', v) | ('place', text)
    | ('agg', adt) | ('unknown', why)."""
    res = set()
    seen = set()

    def place_txt(pl):
        t = "_%d" % pl["l"]
        for e in pl["p"]:
            if e["k"] == "deref":
                t = "(*%s)" % t
            elif e["k"] == "field":
                t += "." + str(e.get("name", e["i"]))
            elif e["k"] == "downcast":
                t += " as " + e.get("vname", "?")
            else:
                t += "[" + e["k"] + "]"
        return t

    def go_place(pl, d):
        key = (pl["l"], place_txt(pl))
        if key in seen or d <= 0:
            return
        seen.add(key)
        l = pl["l"]
        proj = [e for e in pl["p"]]
        suffix = place_txt({"l": 0, "p": proj})[2:]
        if 1 <= l <= f["mir"]["arg_count"]:
            res.add(("arg", l, suffix))
            return
        ds = defs_of_local(f, l)
        if not ds:
            res.add(("unknown", "no def of _%d" % l))
        for kind, bi, si, s in ds:
            if kind == "call":
                res.add(("call", callee_name(s["callee"]), bi, suffix))
                continue
            rv = s["rv"]
            if rv["k"] == "use":
                o = rv["op"]
                if o["k"] in ("copy", "move"):
                    go_place({"l": o["place"]["l"], "p": o["place"]["p"] + proj}, d - 1)
                elif o["k"] == "const":
                    res.add(("const", o.get("v", o.get("str", o.get("zst"))), suffix))
            elif rv["k"] == "ref":
                # &place : strip one deref from the remaining projection if any
                np = list(proj)
                if np and np[0]["k"] == "deref":
                    np = np[1:]
                    go_place({"l": rv["place"]["l"], "p": rv["place"]["p"] + np}, d - 1)
                else:
                    res.add(("ref", place_txt(rv["place"]), suffix))
                    go_place({"l": rv["place"]["l"], "p": rv["place"]["p"]}, d - 1)
            elif rv["k"] == "aggregate":
                res.add(("agg", rv.get("adt") or rv.get("ak"), rv.get("variant"), suffix))
                # a field read back from a locally built tuple: continue into the component (`let (a, b) = match x { P => (p, q), .. }`)
                if rv.get("ak") == "tuple" and proj and proj[0]["k"] == "field" and isinstance(proj[0].get("i"), int) and proj[0]["i"] < len(rv.get("ops", [])):
                    o = rv["ops"][proj[0]["i"]]
                    if o["k"] in ("copy", "move"):
                        go_place({"l": o["place"]["l"], "p": o["place"]["p"] + proj[1:]}, d - 1)
                    elif o["k"] == "const":
                        res.add(("const", o.get("v", o.get("str", o.get("zst"))), suffix))
            elif rv["k"] == "cast":
                o = rv["op"]
                if o["k"] in ("copy", "move"):
                    go_place({"l": o["place"]["l"], "p": o["place"]["p"] + proj}, d - 1)
                else:
                    res.add(("cast", rv["ck"], suffix))
            else:
                res.add((rv["k"], rv.get("op"), suffix))

    if op["k"] in ("copy", "move"):
        go_place(op["place"], depth)
    elif op["k"] == "const":
        res.add(("const", op.get("v", op.get("str", op.get("zst"))), ""))
    return res


def free_node_key(prog):
    """The crate-private function that retires a slot (Arena::free_node today): by name when present, otherwise the only non-public Arena method taking
    (&mut Arena, NodeId) that NodeId::remove calls."""
    default = "crate::arena::Arena<T>::free_node"
    if default in prog.fns:
        return default
    idx = Index(prog)
    cands = []
    for k in idx.edges.get("crate::id::NodeId::remove", ()):
        f = prog.fns.get(k)
        if f is None or "mir" not in f or not k.startswith("crate::arena::Arena<T>::") or f.get("vis") == "pub":
            continue
        mir = f["mir"]
        if mir["arg_count"] == 2 and prog.tys(mir["locals"][1]["ty"]).startswith("&mut crate::arena::Arena<") and prog.tys(mir["locals"][2]["ty"]) == "crate::id::NodeId":
            cands.append(k)
    return cands[0] if len(cands) == 1 else default


NEW_NODE = "crate::arena::Arena<T>::new_node"
APPEND_VALUE = "crate::id::NodeId::append_value"


def slot_pushers(prog, idx):
    """Functions that grow the slot vector (Vec<Node<T>>::push)."""
    out = set()
    for k, cs in idx.calls.items():
        for bi, t, n in cs:
            if n == "alloc::vec::Vec::<T, A>::push":
                targs = [prog.tys(a) for a in t["callee"].get("args", []) if isinstance(a, int)]
                if targs and targs[0].startswith("crate::node::Node<"):
                    out.add(k)
    return out


def alloc_gates(prog, idx=None):
    """The allocation entry points whose bodies E2 decides: Arena::new_node always; NodeId::append_value as well when it allocates through a private path of
    its own instead of calling new_node (a slot is pushed in a function that is not reachable only through new_node).  Whoever uses the larger set must also
    decide the allocation obligations on append_value (E2 entry `append_alloc`, e2props.alloc_obligations)."""
    idx = idx or Index(prog)
    pushers = slot_pushers(prog, idx)
    if pushers and all(idx.gated(k, {NEW_NODE}) for k in pushers):
        return {NEW_NODE}
    return {NEW_NODE, APPEND_VALUE}
