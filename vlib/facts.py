"""E0 front end: export facts for /repo's *current working tree* (content-addressed cache) and load them.

The cache key covers every byte that can influence the exported program: all files of the two
workspace crates, the workspace manifests and lock file, the driver binary, the profile and the
feature selection.  A changed file changes the key, so a check always sees the current tree.
"""
import hashlib, json, os, subprocess, sys, time, fcntl, shutil

VERIF = os.path.dirname(os.path.dirname(os.path.abspath(__file__)))
REPO = os.environ.get("VERIF_REPO", "/repo")
CACHE = os.path.join(VERIF, ".cache")
DRIVER = os.path.join(VERIF, "engines", "mirx", "target", "release", "mirx")
RUNNER = os.path.join(VERIF, "engines", "run_mirx.sh")

ALL_FEATURES = ["std", "macros", "par_iter", "deser"]


def all_features(repo=None):
    """(features, default set) declared in indextree/Cargo.toml of the tree under analysis (known ones first, so that configuration names stay stable)."""
    repo = repo or REPO
    try:
        import tomllib
        with open(os.path.join(repo, "indextree", "Cargo.toml"), "rb") as fh:
            t = tomllib.load(fh)
        feats = t.get("features", {})
        names = [f for f in ALL_FEATURES if f in feats] + sorted(f for f in feats if f not in ALL_FEATURES and f != "default")
        default = [f for f in feats.get("default", []) if f in names]
        return names, default
    except Exception:
        return list(ALL_FEATURES), ["std", "macros"]


def _tree_files(repo):
    out = []
    for top in ("indextree", "indextree-macros"):
        for root, dirs, files in os.walk(os.path.join(repo, top)):
            dirs[:] = sorted(d for d in dirs if d not in ("target", ".git"))
            for f in sorted(files):
                out.append(os.path.join(root, f))
    for f in ("Cargo.toml", "Cargo.lock"):
        p = os.path.join(repo, f)
        if os.path.exists(p):
            out.append(p)
    return out


_tree_hash_memo = {}


def tree_hash(repo=None):
    repo = repo or REPO
    if repo in _tree_hash_memo:
        return _tree_hash_memo[repo]
    h = hashlib.sha256()
    for p in _tree_files(repo):
        h.update(os.path.relpath(p, repo).encode())
        h.update(b"\0")
        try:
            with open(p, "rb") as fh:
                h.update(hashlib.sha256(fh.read()).digest())
        except OSError:
            h.update(b"<unreadable>")       # e.g. a dangling symlink in a scratch copy: not an input of the build
    _tree_hash_memo[repo] = h.hexdigest()
    return _tree_hash_memo[repo]


def _driver_hash():
    if not os.path.exists(DRIVER):
        raise SystemExit("TOOL-FAULT: mirx driver missing; run MANIFEST.setup_cmd")
    with open(DRIVER, "rb") as fh:
        return hashlib.sha256(fh.read()).hexdigest()


def feature_args(features):
    """features: None = crate defaults; otherwise an explicit list (possibly empty)."""
    if features is None:
        return []
    a = ["--no-default-features"]
    if features:
        a += ["--features", ",".join(features)]
    return a


def config_name(profile, features):
    return profile + "-" + ("default" if features is None else ("+".join(features) if features else "nofeat"))


def facts_key(profile, features, repo=None):
    h = hashlib.sha256()
    h.update(tree_hash(repo).encode())
    h.update(_driver_hash().encode())
    h.update(config_name(profile, features).encode())
    return h.hexdigest()[:32]


def export(profile="dev", features=None, repo=None):
    """Return (dir, info).  info = {key, cache: hit|miss, wall_s}"""
    repo = repo or REPO
    key = facts_key(profile, features, repo)
    d = os.path.join(CACHE, key)
    os.makedirs(CACHE, exist_ok=True)
    t0 = time.time()
    lock = open(os.path.join(CACHE, key + ".lock"), "w")
    fcntl.flock(lock, fcntl.LOCK_EX)
    try:
        if os.path.exists(os.path.join(d, "indextree.json")) and os.path.exists(os.path.join(d, "OK")):
            return d, {"key": key, "cache": "hit", "wall_s": 0.0, "config": config_name(profile, features)}
        if os.path.exists(d):
            shutil.rmtree(d)
        tmp = d + ".tmp%d" % os.getpid()
        if os.path.exists(tmp):
            shutil.rmtree(tmp)
        env = dict(os.environ)
        env["VERIF_REPO"] = repo
        r = subprocess.run([RUNNER, tmp, profile] + feature_args(features), env=env,
                           stdout=subprocess.PIPE, stderr=subprocess.PIPE, text=True)
        if r.returncode != 0 or not os.path.exists(os.path.join(tmp, "indextree.json")):
            sys.stderr.write(r.stdout + r.stderr)
            shutil.rmtree(tmp, ignore_errors=True)
            raise BuildFailed("facts export failed for %s (exit %d)" % (config_name(profile, features), r.returncode), r.stderr)
        open(os.path.join(tmp, "OK"), "w").write(key)
        os.rename(tmp, d)
        return d, {"key": key, "cache": "miss", "wall_s": round(time.time() - t0, 2), "config": config_name(profile, features)}
    finally:
        fcntl.flock(lock, fcntl.LOCK_UN)
        lock.close()


class BuildFailed(Exception):
    def __init__(self, msg, stderr=""):
        super().__init__(msg)
        self.stderr = stderr


_loaded = {}


# Where the checks expect the crate's own types to live.  The module a type is defined in is a private detail (the public ones are re-exported from the crate
# root): when a type of this name is found under another module path, every occurrence of that path in the facts is rewritten to the expected one, so that
# moving e.g. NodeStamp into a module of its own changes nothing for the analyses.
CANONICAL_HOMES = {
    "NodeId": "crate::id", "NodeStamp": "crate::id", "Node": "crate::node", "NodeData": "crate::node", "Arena": "crate::arena", "NodeError": "crate::error",
    "ConsistencyError": "crate::error", "SiblingsRange": "crate::siblings_range", "DetachedSiblingsRange": "crate::siblings_range",
    "NodeEdge": "crate::traverse", "Traverse": "crate::traverse", "ReverseTraverse": "crate::traverse", "Descendants": "crate::traverse", "Ancestors": "crate::traverse",
    "Predecessors": "crate::traverse", "Children": "crate::traverse", "ReverseChildren": "crate::traverse", "PrecedingSiblings": "crate::traverse",
    "FollowingSiblings": "crate::traverse", "DebugPrettyPrint": "crate::debug_pretty_print",
}


def _canonicalise_paths(text):
    """Rewrite the definition paths of the crate's known types to their expected homes (see CANONICAL_HOMES)."""
    import re
    moved = {}
    for m in re.finditer(r'"path":\s*"(crate(?:::\w+)*)::(\w+)",\s*"kind":\s*"(?:struct|enum)"', text):
        mod, name = m.group(1), m.group(2)
        home = CANONICAL_HOMES.get(name)
        if home and mod != home:
            moved[mod + "::" + name] = home + "::" + name
    if len(set(moved.values())) != len(moved):
        return text, {}
    for old, new in sorted(moved.items(), key=lambda kv: -len(kv[0])):
        text = re.sub(re.escape(old) + r"(?![A-Za-z0-9_])", new, text)
    return text, moved


def load(profile="dev", features=None, crate="indextree", repo=None):
    d, info = export(profile, features, repo)
    p = os.path.join(d, crate + ".json")
    k = (p,)
    if k not in _loaded:
        with open(p) as fh:
            text = fh.read()
        moved = {}
        if crate == "indextree":
            text, moved = _canonicalise_paths(text)
        info = dict(info, moved_types=moved) if moved else info
        _loaded[k] = Program(json.loads(text), info)
    return _loaded[k]


def prune_cache(keep=160, min_age_s=1800):
    """Keep the cache bounded (oldest entries first).  Entries younger than `min_age_s` are never touched: another check running in parallel may be
    building them (`*.tmp<pid>` directories) or about to read them."""
    import time
    try:
        now = time.time()
        ents = [os.path.join(CACHE, e) for e in os.listdir(CACHE) if os.path.isdir(os.path.join(CACHE, e))]
        ents = [(os.path.getmtime(p), p) for p in ents]
        ents.sort()
        old = [p for (m, p) in ents if now - m > min_age_s]
        excess = max(0, len(ents) - keep)
        for p in old[:excess]:
            shutil.rmtree(p, ignore_errors=True)
            try:
                os.remove(p + ".lock")
            except OSError:
                pass
    except OSError:
        pass


class Program:
    """Read-only view of one exported crate."""

    def __init__(self, j, info):
        self.j = j
        self.info = info
        self.types = j["types"]
        self.fns = {}
        for f in j["fns"]:
            self.fns[f["key"]] = f
        # library MIR of the std combinators the crate instantiates (interpreter fall-back; not part of the crate's own function table)
        self.ext = {f["key"]: f for f in j.get("ext_fns", [])}
        self.adts = {a["path"]: a for a in j["adts"]}
        self.impls = j["impls"]

    def ty(self, i):
        return self.types[i]

    def tys(self, i):
        return self.types[i]["s"]

    def bodies(self):
        for f in self.j["fns"]:
            if "mir" in f:
                yield f

    def fn(self, key):
        return self.fns.get(key)

    def loc(self, span):
        if not span:
            return "?"
        return "%s:%d" % (span["file"], span["l0"])

    # -- iteration helpers -------------------------------------------------
    def terms(self, f):
        for bi, b in enumerate(f["mir"]["blocks"]):
            yield bi, b["term"]

    def calls(self, f):
        for bi, b in enumerate(f["mir"]["blocks"]):
            t = b["term"]
            if t["k"] == "call":
                yield bi, t

    def stmts(self, f):
        for bi, b in enumerate(f["mir"]["blocks"]):
            for si, s in enumerate(b["stmts"]):
                yield bi, si, s

    @staticmethod
    def callee_name(c):
        """Stable name of a resolved callee: local key or external def path."""
        k = c.get("kind")
        if k in ("indirect", "const_fnptr"):
            return "<indirect>"
        if c.get("local"):
            return c.get("key")
        return c.get("path") or c.get("decl")

    def local_ty(self, f, l):
        return self.types[f["mir"]["locals"][l]["ty"]]


# ---------------------------------------------------------------------- positive-control fixture
_fixture = {}


def load_fixture(name="vsins"):
    """Facts of the sins crate under /verif/fixtures (content-addressed like the repo facts)."""
    if name in _fixture:
        return _fixture[name]
    src = os.path.join(VERIF, "fixtures", name)
    h = hashlib.sha256()
    for root, dirs, files in os.walk(src):
        dirs[:] = sorted(d for d in dirs if d != "target")
        for f in sorted(files):
            h.update(f.encode())
            h.update(open(os.path.join(root, f), "rb").read())
    h.update(_driver_hash().encode())
    key = "fx-" + h.hexdigest()[:24]
    d = os.path.join(CACHE, key)
    os.makedirs(CACHE, exist_ok=True)
    lock = open(os.path.join(CACHE, key + ".lock"), "w")
    fcntl.flock(lock, fcntl.LOCK_EX)
    try:
        if not os.path.exists(os.path.join(d, "OK")):
            tmp = d + ".tmp%d" % os.getpid()
            shutil.rmtree(tmp, ignore_errors=True)
            env = dict(os.environ, VERIF_REPO=src, MIRX_PKG=name, MIRX_CRATES=name, MIRX_MAIN=name)
            r = subprocess.run([RUNNER, tmp, "dev"], env=env, stdout=subprocess.PIPE, stderr=subprocess.PIPE, text=True)
            if r.returncode != 0:
                shutil.rmtree(tmp, ignore_errors=True)
                from .report import ToolFault
                raise ToolFault("positive-control fixture %s does not export: %s" % (name, r.stderr[-800:]))
            open(os.path.join(tmp, "OK"), "w").write(key)
            shutil.rmtree(d, ignore_errors=True)
            os.rename(tmp, d)
    finally:
        fcntl.flock(lock, fcntl.LOCK_UN)
        lock.close()
    with open(os.path.join(d, name + ".json")) as fh:
        _fixture[name] = Program(json.load(fh), {"key": key, "fixture": name})
    return _fixture[name]
