"""Turn E2 terminal records into per-property obligations (C01, C02, C03, C05, C12 ...)."""
import re
from .absint import e2run

CHECKED = ["checked_append", "checked_prepend", "checked_insert_after", "checked_insert_before"]
UNCHECKED = ["append", "prepend", "insert_after", "insert_before"]
ANC_ERR = {"append": ("AppendAncestor",), "prepend": ("PrependAncestor",),
           "insert_after": ("InsertAfterAncestor", "Ancestor"), "insert_before": ("InsertBeforeAncestor", "Ancestor")}


def load(run, profiles, entries, features=None):
    """Run/load E2 for the given entries and profiles; records run statistics into the evidence."""
    out = {}
    stats = []
    for p in profiles:
        res = e2run.run_entries(p, features, entries)
        for e, r in res.items():
            if "error" in r:
                # fail closed: an entry the interpreter cannot get through is an undecided path, not a pass
                last = [l for l in r["error"].strip().splitlines() if l.strip()][-1][:160]
                out[(p, e)] = [{"entry": e, "exit": "undecided", "case": None, "msg": "analysis aborted: " + last, "decisions": [], "frames": []}]
                stats.append({"entry": e, "profile": p, "terminals": 0, "blocks": 0, "statements": 0, "forks": 0, "wall_s": 0, "functions": [], "cache": "error"})
                continue
            out[(p, e)] = r["records"]
            s = dict(r["stats"])
            s["cache"] = r.get("cache")
            stats.append(s)
            run.count_eval(len(r["records"]))
    run.extra.setdefault("e2_runs", []).extend(
        {k: s[k] for k in ("entry", "profile", "terminals", "blocks", "statements", "forks", "wall_s", "cache")} for s in stats)
    fns = set()
    for s in stats:
        fns.update(s.get("functions", []))
    run.extra["functions_interpreted"] = sorted(fns)
    run.extra["mir_statements_interpreted"] = sum(s["statements"] for s in stats)
    return out


def panic_kind(msg):
    if not msg:
        return "?"
    m = re.search(r"(SiblingsLoop|ParentChildLoop)", msg)
    if m:
        return m.group(1)
    return msg.split(":")[0]


def where(rec):
    return "%s [%s] shape{%s}" % (rec["entry"], rec.get("case"), rec.get("shape", ""))


def undecided(run, recs, prof):
    """Fail closed: a path the analysis could not follow is reported, never assumed fine."""
    for rec in recs:
        if rec["exit"] == "undecided":
            msg = re.sub(r"_\d+|n\d+|#\d+", "_", rec.get("msg") or "")[:120]
            run.ob("decided", "path decided", False, key="undecided|%s|%s" % (rec["entry"], msg),
                   detail={"kind": "undecided", "reason": rec.get("msg"), "case": rec.get("case"), "decisions": rec.get("decisions"),
                           "frames": rec.get("frames")})


def sample_of(rec):
    return {"entry": rec["entry"], "case": rec.get("case"), "class": rec.get("class"), "shape": rec.get("shape"),
            "exit": rec["exit"], "value": rec.get("value"), "overlay": rec.get("overlay", [])[:6]}


def detail_of(rec):
    return {"entry": rec["entry"], "case": rec.get("case"), "class": rec.get("class"), "pre_state": rec.get("shape"),
            "exit": rec["exit"], "value": rec.get("value"), "panic": rec.get("msg"), "at": rec.get("at"),
            "overlay": rec.get("overlay"), "J": rec.get("J"), "J3": rec.get("J3"), "model_diff": rec.get("model_diff"),
            "writes": rec.get("writes"), "decisions": rec.get("decisions"), "frames": rec.get("frames"), "heap": rec.get("heap")}


def nontrivial_tag(rec):
    return (rec["entry"], rec.get("shape")) if rec.get("overlay") else None
