"""Turn E2 terminal records into per-property obligations (C01, C02, C03, C05, C12 ...)."""
import re
from .absint import e2run

CHECKED = ["checked_append", "checked_prepend", "checked_insert_after", "checked_insert_before"]
UNCHECKED = ["append", "prepend", "insert_after", "insert_before"]
ANC_ERR = {"append": ("AppendAncestor",), "prepend": ("PrependAncestor",),
           "insert_after": ("InsertAfterAncestor", "Ancestor"), "insert_before": ("InsertBeforeAncestor", "Ancestor")}


def load(run, profiles, entries, features=None):
    """Run/load E2 for the given entries and profiles; records run statistics into the evidence."""
    out = {}
    stats = []
    for p in profiles:
        res = e2run.run_entries(p, features, entries)
        for e, r in res.items():
            if "error" in r:
                # fail closed: an entry the interpreter cannot get through is an undecided path, not a pass
                last = [l for l in r["error"].strip().splitlines() if l.strip()][-1][:160]
                out[(p, e)] = [{"entry": e, "exit": "undecided", "case": None, "msg": "analysis aborted: " + last, "decisions": [], "frames": []}]
                stats.append({"entry": e, "profile": p, "terminals": 0, "blocks": 0, "statements": 0, "forks": 0, "wall_s": 0, "functions": [], "cache": "error"})
                continue
            out[(p, e)] = r["records"]
            s = dict(r["stats"])
            s["cache"] = r.get("cache")
            stats.append(s)
            run.count_eval(len(r["records"]))
    run.extra.setdefault("e2_runs", []).extend(
        {k: s[k] for k in ("entry", "profile", "terminals", "blocks", "statements", "forks", "wall_s", "cache")} for s in stats)
    fns = set()
    for s in stats:
        fns.update(s.get("functions", []))
    run.extra["functions_interpreted"] = sorted(fns)
    run.extra["mir_statements_interpreted"] = sum(s["statements"] for s in stats)
    return out


def panic_kind(msg):
    if not msg:
        return "?"
    m = re.search(r"(SiblingsLoop|ParentChildLoop)", msg)
    if m:
        return m.group(1)
    return msg.split(":")[0]


def where(rec):
    return "%s [%s] shape{%s}" % (rec["entry"], rec.get("case"), rec.get("shape", ""))


def undecided(run, recs, prof):
    """Fail closed: a path the analysis could not follow is reported, never assumed fine."""
    for rec in recs:
        if rec["exit"] == "undecided":
            msg = re.sub(r"_\d+|n\d+|#\d+", "_", rec.get("msg") or "")[:120]
            run.ob("decided", "path decided", False, key="undecided|%s|%s" % (rec["entry"], msg),
                   detail={"kind": "undecided", "reason": rec.get("msg"), "case": rec.get("case"), "decisions": rec.get("decisions"),
                           "frames": rec.get("frames")})


def sample_of(rec):
    return {"entry": rec["entry"], "case": rec.get("case"), "class": rec.get("class"), "shape": rec.get("shape"),
            "exit": rec["exit"], "value": rec.get("value"), "overlay": rec.get("overlay", [])[:6]}


def detail_of(rec):
    return {"entry": rec["entry"], "case": rec.get("case"), "class": rec.get("class"), "pre_state": rec.get("shape"),
            "exit": rec["exit"], "value": rec.get("value"), "panic": rec.get("msg"), "at": rec.get("at"),
            "overlay": rec.get("overlay"), "J": rec.get("J"), "J3": rec.get("J3"), "model_diff": rec.get("model_diff"),
            "writes": rec.get("writes"), "decisions": rec.get("decisions"), "frames": rec.get("frames"), "heap": rec.get("heap")}


def nontrivial_tag(rec):
    return (rec["entry"], rec.get("shape")) if rec.get("overlay") else None


I16_MIN = -32768


def alloc_obligations(run, entry, prof, rec, d, nt):
    """The allocation obligations of the FIFO free-list model, decided on one terminal record of an allocating entry point (Arena::new_node; NodeId::append_value
    when it has an allocation path of its own - entry `append_alloc`).  Returns the kinds of allocation seen ({'push'} / {'pop'})."""
    kinds = set()
    name = "new_node" if entry == "new_node" else "append_value"
    pre, post, pn = rec["fl_pre"], rec["fl_post"], rec["fl_pre_next"]
    k = rec["returned"]
    run.ob(entry, "%s/%s: returns an id of a slot of this arena" % (name, prof), k is not None, key="%s|returned id addresses no slot" % name, detail=d)
    if k is None:
        return kinds
    links_ok = rec["returned_links"] == [None] * 5 if entry == "new_node" else True      # the links append_value leaves are decided by C03's model comparison
    run.ob(entry, "%s/%s: returned slot is live afterwards with the payload stored%s" % (name, prof, " and no links" if entry == "new_node" else ""),
           rec["returned_data"] == "Data" and links_ok and rec["returned_stamp_range"][0] >= 0,
           key="%s|returned slot not a clean live node" % name, detail=d, nontrivial=nt)
    run.ob(entry, "%s/%s: the id handed out carries the slot's current generation (a fresh id is not 'removed')" % (name, prof), rec.get("returned_id_is_current") is True,
           key="%s|returned id does not carry the slot's current stamp" % name, detail=d, nontrivial=nt)
    if entry == "new_node":
        untouched = not rec["other_writes"] and all(w[0] == k for w in rec["data_writes"])
    else:
        untouched = all(w[0] == k for w in rec["data_writes"]) and all(w[0] == k for w in rec.get("payload_writes", []))
    run.ob(entry, "%s/%s: no other node%s is written" % (name, prof, "" if entry == "new_node" else "'s payload or stamp"), untouched,
           key="%s|writes to another node" % name, detail=d)
    if pre["first"] is None:
        kinds.add("push")
        ok = rec["events"] == ["push"] and rec["returned_fresh"] and rec["len"][1].endswith("+1") and post["first"] in (None,) and post["last"] in (None, "unk") \
            and rec["returned_stamp_range"] == [0, 0]
        run.ob(entry, "%s/%s: empty free list -> push one slot (count + 1), stamp 0" % (name, prof), ok, key="%s|empty free list does not push exactly one fresh slot" % name, detail=d, nontrivial=nt, sample=True)
    else:
        kinds.add("pop")
        h = pre["first"]
        nxt = pn.get(h, "unk")
        ok = k == h and not rec["returned_fresh"] and rec.get("returned_was_member") and rec["events"] == [] and rec["len"][0] == rec["len"][1]
        run.ob(entry, "%s/%s: non-empty free list -> the head is recycled, count unchanged" % (name, prof), ok,
               key="%s|does not recycle the head of the free list without growing" % name, detail=d, nontrivial=nt, sample=True)
        ok2 = post["first"] == nxt and ((nxt is None and post["last"] is None) or (nxt is not None and post["last"] in ("unk", pre["last"])))
        run.ob(entry, "%s/%s: first := head.next; last := None iff the list became empty" % (name, prof), ok2,
               key="%s|free-list ends wrong after popping the head" % name, detail=d, nontrivial=nt)
        plo, phi = rec.get("returned_prev_stamp_range") or (0, 0)
        run.ob(entry, "%s/%s: recycled slot was removed (stamp < 0) and reuseable" % (name, prof), phi < 0 and plo > I16_MIN,
               key="%s|recycled slot was not a removed, reuseable slot" % name, detail=d)
    return kinds
