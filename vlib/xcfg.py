"""E4: canonical MIR per function, comparable across configurations."""
import json, hashlib, re

TYKEYS = {"ty", "from", "to", "output", "impl_self_ty", "shim_ty", "self_ty"}
TYLISTS = {"tys", "args", "decl_args", "inputs", "upvars"}
DROPKEYS = {"span", "attrs"}


def canon(prog, x, key=None):
    """Replace interned type indices by their strings, drop spans and storage markers."""
    if isinstance(x, dict):
        out = {}
        for k, v in x.items():
            if k in DROPKEYS:
                continue
            if k in TYKEYS and isinstance(v, int):
                out[k] = prog.types[v]["s"]
            elif k in TYLISTS and isinstance(v, list) and (key != "call_args"):
                out[k] = [prog.types[e]["s"] if isinstance(e, int) else canon(prog, e) for e in v]
            elif k == "stmts":
                out[k] = [canon(prog, s) for s in v if s.get("k") not in ("live", "dead", "nop")]
            else:
                out[k] = canon(prog, v, k)
        return out
    if isinstance(x, list):
        return [canon(prog, e) for e in x]
    return x


def canon_fn(prog, f):
    """Canonical JSON text of a function: signature + MIR (no spans, no type indices)."""
    c = {}
    for k in ("key", "def_kind", "vis", "unsafe", "inputs", "output", "generics", "predicates", "impl_derived",
              "impl_self_ty", "impl_trait", "has_body"):
        if k in f:
            c[k] = f[k]
    c = canon(prog, c)
    if "mir" in f:
        m = f["mir"]
        # call terminator "args" are operands, not types: canonicalise them separately
        blocks = []
        for b in m["blocks"]:
            t = dict(b["term"])
            if t.get("k") == "call":
                args = t.pop("args")
                ct = canon(prog, t)
                ct["args"] = [canon(prog, a) for a in args]
            else:
                ct = canon(prog, t)
            blocks.append({"stmts": [canon(prog, s) for s in b["stmts"] if s.get("k") not in ("live", "dead", "nop")],
                           "term": ct, "cleanup": b.get("cleanup")})
        c["mir"] = {"arg_count": m["arg_count"], "locals": [prog.types[l["ty"]]["s"] for l in m["locals"]], "blocks": blocks}
    return json.dumps(c, sort_keys=True)


def fn_table(prog):
    return {f["key"]: canon_fn(prog, f) for f in prog.j["fns"]}


def adt_table(prog):
    out = {}
    for a in prog.j["adts"]:
        c = {"path": a["path"], "kind": a["kind"], "vis": a["vis"], "generics": a["generics"], "repr": re.sub(r", field_shuffle_seed: \d+", "", a["repr"]),
             "variants": [{"name": v["name"], "fields": [{"name": f["name"], "ty": prog.types[f["ty"]]["s"], "vis": f["vis"]}
                                                         for f in v["fields"]]} for v in a["variants"]]}
        out[a["path"]] = json.dumps(c, sort_keys=True)
    return out


def impl_table(prog):
    out = {}
    for im in prog.j["impls"]:
        if im.get("trait") is None:
            # inherent impls: one entry per method (several impl blocks for one type are merged)
            for it in im["items"]:
                out["inherent item %s" % it] = json.dumps({"predicates": sorted(im["predicates"])}, sort_keys=True)
            continue
        k = "impl %s for %s" % (im.get("trait"), prog.types[im["self_ty"]]["s"])
        out[k] = json.dumps({"items": sorted(im["items"]), "derived": im["derived"], "unsafe": im["unsafe"],
                             "predicates": sorted(im["predicates"])}, sort_keys=True)
    return out


def first_difference(a, b):
    """Human-readable first difference between two canonical JSON texts."""
    try:
        ja, jb = json.loads(a), json.loads(b)
    except ValueError:
        i = next((i for i in range(min(len(a), len(b))) if a[i] != b[i]), min(len(a), len(b)))
        return "text offset %d" % i, a[max(0, i - 60):i + 60], b[max(0, i - 60):i + 60]

    def walk(x, y, path):
        if type(x) != type(y):
            return path, x, y
        if isinstance(x, dict):
            for k in sorted(set(x) | set(y)):
                if k not in x or k not in y:
                    return path + "." + k, x.get(k), y.get(k)
                r = walk(x[k], y[k], path + "." + k)
                if r:
                    return r
            return None
        if isinstance(x, list):
            if len(x) != len(y):
                return path + ".len", len(x), len(y)
            for i, (p, q) in enumerate(zip(x, y)):
                r = walk(p, q, "%s[%d]" % (path, i))
                if r:
                    return r
            return None
        return None if x == y else (path, x, y)

    r = walk(ja, jb, "")
    if not r:
        return "identical"
    return "%s: %s  vs  %s" % (r[0], json.dumps(r[1])[:300], json.dumps(r[2])[:300])
