"""Positive controls: every zero-count detector must fire on the sins fixture (fixtures/vsins) on every run.
A detector that stays silent there is a TOOL FAULT (exit 2), never a verdict about /repo."""
from . import facts, rules, typeclosure
from .report import ToolFault


def detectors(prog):
    idx = rules.Index(prog)
    names = {n for k in idx.calls for (_, _, n) in idx.calls[k]}
    out = {
        "unsafe block": bool(prog.j["unsafe_sites"]),
        "unsafe impl": any(im.get("unsafe") and not im.get("derived") for im in prog.impls),
        "unsafe trait": any(t.get("unsafe") for t in prog.j["traits"]),
        "static item": bool(prog.j["statics"]),
        "thread-local access": any(s["k"] == "assign" and s["rv"]["k"] == "threadlocal" for f in prog.bodies() for _, _, s in prog.stmts(f)),
        "ambient call (time)": any("std::time" in n for n in names),
        "atomic call": any("sync::atomic" in n for n in names),
        "relocating Vec call": any(n.endswith("::swap_remove") for n in names),
        "leak primitive": any(n == "core::mem::forget" for n in names),
        "pointer->integer cast": any(s["k"] == "assign" and s["rv"]["k"] == "cast" and "Expose" in s["rv"]["ck"] for f in prog.bodies() for _, _, s in prog.stmts(f)),
        "recursion": bool(idx.recursion()),
    }
    kinds = set()
    for a in prog.j["adts"]:
        for v in a["variants"]:
            for fl in v["fields"]:
                for (k, s, _) in typeclosure.closure(prog, fl["ty"]):
                    kinds.add((k, s))
    out["interior mutability in a field"] = ("extern_adt", "core::cell::Cell") in kinds
    out["raw pointer in a field"] = any(k == "rawptr" for k, _ in kinds)
    return out


def selftest(run, needed):
    """Record one obligation per needed detector; raise ToolFault when one does not fire on the fixture."""
    prog = facts.load_fixture()
    d = detectors(prog)
    dead = [n for n in needed if not d.get(n)]
    if dead:
        raise ToolFault("positive control(s) did not fire on fixtures/vsins: %s" % dead)
    run.extra["positive_controls"] = {n: True for n in needed}
    run.extra["positive_controls_fixture"] = prog.info
