"""Obligation bookkeeping, known findings, evidence files, exit codes."""
import json, os, sys, time

VERIF = os.path.dirname(os.path.dirname(os.path.abspath(__file__)))
KNOWN = os.path.join(VERIF, "known_findings.json")

TRUSTED = [
    "T1 rustc nightly front end up to MIR construction (-Zmir-opt-level=0)",
    "T2 /verif engines: mirx exporter, rules, abstract interpreter (self-tested by fixtures and seeded mutants)",
    "T3 documented behaviour of Vec/Option/Result/slice/NonZero (std models), rayon slice par_iter, serde derive",
    "T4 written inductions referenced in DESIGN.md section 5",
]


class ToolFault(Exception):
    pass


class Run:
    def __init__(self, pid, tier="quick", level="proof", checker_cmd=None):
        self.pid = pid
        self.tier = tier
        self.level = level
        self.t0 = time.time()
        self.seed = int(os.environ.get("VERIF_SEED", "0") or 0)
        self.obligations = 0
        self.discharged = 0
        self.evaluations = 0
        self.nontrivial = set()
        self.samples = []
        self.violations = []      # (key, what, detail)
        self.known_hits = []
        self.extra = {}
        self.assumptions = []
        self.rule = ""
        self.explanation = None
        self.checker_cmd = checker_cmd or ("./check %s --tier %s" % (pid, tier))
        self.floors = {}
        self.groups = {}
        try:
            self.known = [k for k in json.load(open(KNOWN)) if k.get("property") == pid]
        except (OSError, ValueError):
            self.known = []

    # ------------------------------------------------------------------
    def ob(self, group, desc, ok, key=None, detail=None, loc=None, nontrivial=None, sample=False):
        """Record one obligation.  `key` must be stable (no line numbers); required when not ok."""
        self.obligations += 1
        g = self.groups.setdefault(group, [0, 0])
        g[0] += 1
        if nontrivial is not None:
            self.nontrivial.add(nontrivial)
        if ok:
            self.discharged += 1
            g[1] += 1
            if sample and len(self.samples) < 12:
                self.samples.append({"group": group, "obligation": desc, "result": "discharged", "at": loc})
        else:
            k = key or ("%s|%s" % (group, desc))
            self.fail(k, desc, detail, loc, group)
        return ok

    def fail(self, key, what, detail=None, loc=None, group=None):
        full = key if key.startswith(self.pid + "|") else "%s|%s" % (self.pid, key)
        for v in self.violations:
            if v["key"] == full:
                return
        self.violations.append({"key": full, "what": what, "detail": detail, "at": loc, "group": group})

    def floor(self, name, measured, minimum):
        """Fail closed when an inventory falls below what was counted by hand."""
        self.floors[name] = {"measured": measured, "floor": minimum}
        self.ob("floor", "%s: measured %s >= floor %s" % (name, measured, minimum), measured >= minimum,
                key="floor|" + name,
                detail="inventory below the hand-counted floor: the rule may be matching nothing (vacuous pass)")

    def count_eval(self, n=1):
        self.evaluations += n

    def sample(self, s):
        if len(self.samples) < 16:
            self.samples.append(s)

    # ------------------------------------------------------------------
    def finish(self):
        wall = time.time() - self.t0
        outdir = os.path.join(VERIF, "out", self.pid + ("-scratch" if os.environ.get("VERIF_REPO") not in (None, "", "/repo") else ""))
        os.makedirs(outdir, exist_ok=True)
        open_known = {k["key"]: k for k in self.known if k.get("status") == "open"}
        real = []
        lines = []
        for v in self.violations:
            if v["key"] in open_known:
                self.known_hits.append(v)
                lines.append("KNOWN-FINDING: property=%s %s [%s]" % (self.pid, open_known[v["key"]].get("what", v["what"]), v["key"]))
            else:
                real.append(v)
        for i, v in enumerate(real):
            p = os.path.join(outdir, "v%d.json" % (i + 1))
            with open(p, "w") as fh:
                json.dump({"property": self.pid, "tier": self.tier, **v}, fh, indent=1, default=str)
            lines.append("VIOLATION property=%s replay=%s" % (self.pid, p))
            lines.append("  key: %s" % v["key"])
            lines.append("  what: %s" % v["what"])
            if v.get("at"):
                lines.append("  at: %s" % v["at"])
            if v.get("detail"):
                d = v["detail"] if isinstance(v["detail"], str) else json.dumps(v["detail"], default=str)
                lines.append("  detail: %s" % d[:400])
        # known findings that did not reproduce are reported (informational, not a failure)
        hit_keys = {v["key"] for v in self.known_hits}
        for k in open_known:
            if k not in hit_keys:
                lines.append("NOTE: open known finding did not reproduce on this tree: %s" % k)
        cov = {
            "obligations": self.obligations,
            "discharged": self.discharged + len(self.known_hits),
            "checker_cmd": self.checker_cmd,
            "trusted_base": TRUSTED,
            "evaluations": max(self.evaluations, self.obligations),
            "distinct_nontrivial": len(self.nontrivial),
            "rule": self.rule,
            "samples": self.samples[:16] or [{"note": "no sample recorded"}],
            "groups": {g: {"obligations": a, "discharged": b} for g, (a, b) in sorted(self.groups.items())},
            "floors": self.floors,
            "known_findings_reproduced": [v["key"] for v in self.known_hits],
            "undischarged": [v["key"] for v in real],
        }
        if self.explanation:
            cov["explanation"] = self.explanation
        cov.update(self.extra)
        ev = {
            "property_id": self.pid,
            "tier": self.tier,
            "seed": self.seed,
            "level": self.level,
            "coverage": cov,
            "assumptions": self.assumptions,
            "wall_s": round(wall, 3),
            "violations": len(real),
        }
        # runs against a scratch copy (VERIF_REPO set: seeded mutants) must not overwrite the evidence of /repo
        alt = os.environ.get("VERIF_REPO") not in (None, "", "/repo")
        evdir = os.path.join(VERIF, "out", "evidence-scratch") if alt else os.path.join(VERIF, "evidence")
        os.makedirs(evdir, exist_ok=True)
        with open(os.path.join(evdir, self.pid + ".json"), "w") as fh:
            json.dump(ev, fh, indent=1, default=str)
        for l in lines:
            print(l)
        print("%s %s: %d obligations, %d discharged, %d known findings, %d violations, %.1fs"
              % (self.pid, self.tier, self.obligations, self.discharged, len(self.known_hits), len(real), wall))
        return 1 if real else 0
