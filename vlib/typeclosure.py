"""State-type closure: which types can be stored (transitively) inside a value of a given ADT."""

# external ADTs whose contents are exactly their type arguments (owned, no sharing, no interior mutability)
PLAIN_CONTAINERS = {
    "core::option::Option",
    "alloc::vec::Vec",
    "core::num::nonzero::NonZero",
    "core::marker::PhantomData",
    "alloc::alloc::Global",
    # owned std containers / plain data (no sharing, no interior mutability, deterministic)
    "alloc::string::String", "alloc::boxed::Box", "alloc::collections::vec_deque::VecDeque", "alloc::collections::btree::map::BTreeMap",
    "alloc::collections::btree::set::BTreeSet", "alloc::collections::binary_heap::BinaryHeap", "core::ops::range::Range", "core::ops::range::RangeInclusive",
    "core::cmp::Ordering", "core::time::Duration", "core::result::Result", "core::ops::control_flow::ControlFlow", "alloc::borrow::Cow",
}


def closure(prog, ty_ix, seen=None, path=()):
    """Yield (leaf kind, type string, path) for everything stored inside type ty_ix.
    leaf kinds: 'prim', 'param', 'ref', 'refmut', 'rawptr', 'extern_adt', 'fnptr', 'dyn', 'other'."""
    if seen is None:
        seen = set()
    if ty_ix in seen:
        return
    seen.add(ty_ix)
    t = prog.ty(ty_ix)
    k = t["k"]
    if k in ("bool", "char", "int", "float", "str", "never"):
        yield ("prim", t["s"], path)
    elif k == "param":
        yield ("param", t["s"], path)
    elif k == "ref":
        yield ("refmut" if t["mut"] else "ref", t["s"], path)
        yield from closure(prog, t["ty"], seen, path + ("&",))
    elif k == "rawptr":
        yield ("rawptr", t["s"], path)
    elif k in ("tuple",):
        for x in t["tys"]:
            yield from closure(prog, x, seen, path)
    elif k in ("slice", "array"):
        yield from closure(prog, t["ty"], seen, path)
    elif k == "adt":
        if t["local"]:
            adt = prog.adts.get(t["path"])
            if adt is None:
                yield ("other", t["s"], path)
                return
            # field types are stated for the generic definition; type arguments are visited too
            for v in adt["variants"]:
                for f in v["fields"]:
                    yield from closure(prog, f["ty"], seen, path + (t["path"].split("::")[-1] + "." + f["name"],))
            for a in t["args"]:
                if isinstance(a, int):
                    yield from closure(prog, a, seen, path)
        elif t["path"] in PLAIN_CONTAINERS:
            for a in t["args"]:
                if isinstance(a, int):
                    yield from closure(prog, a, seen, path)
        else:
            yield ("extern_adt", t["path"], path)
            for a in t["args"]:
                if isinstance(a, int):
                    yield from closure(prog, a, seen, path)
    elif k == "fnptr":
        yield ("fnptr", t["s"], path)
    elif k == "dyn":
        yield ("dyn", t["s"], path)
    elif k in ("closure", "fndef"):
        yield ("fnitem", t["s"], path)
    else:
        yield ("other", t["s"], path)


def adt_type_index(prog, adt_path):
    """Find an interned type for the identity-instantiated ADT (any instantiation will do for closure)."""
    for i, t in enumerate(prog.types):
        if t and t.get("k") == "adt" and t.get("path") == adt_path:
            return i
    return None
