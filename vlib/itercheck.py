"""Shared evaluation of the iterator decision tables (C09, C10)."""


def wrap(x):
    return None if x is None else ["Some", x]


def is_field(v, links, n, f):
    """Does state value v denote the pre-state link f of node n?"""
    if v == ["lazy", n, f]:
        return True
    lk = links.get(n, {}) if isinstance(links.get(n), dict) else links
    x = lk.get(f, "unk")
    if x == "unk":
        return False
    return v == wrap(x)


def exp_next_traverse(variant, c, lk):
    """Documented next_traverse: Start(n) -> first_child ? Start(first) : End(n);  End(n) -> next ? Start(next) : parent.map(End)."""
    if variant == "Start":
        fc = lk.get("first_child", "unk")
        if fc == "unk":
            return "unk"
        return ["Some", ["End", c]] if fc is None else ["Some", ["Start", fc]]
    ns = lk.get("next_sibling", "unk")
    if ns == "unk":
        return "unk"
    if ns is not None:
        return ["Some", ["Start", ns]]
    p = lk.get("parent", "unk")
    if p == "unk":
        return "unk"
    return None if p is None else ["Some", ["End", p]]


def exp_prev_traverse(variant, c, lk):
    if variant == "End":
        lc = lk.get("last_child", "unk")
        if lc == "unk":
            return "unk"
        return ["Some", ["Start", c]] if lc is None else ["Some", ["End", lc]]
    ps = lk.get("previous_sibling", "unk")
    if ps == "unk":
        return "unk"
    if ps is not None:
        return ["Some", ["End", ps]]
    p = lk.get("parent", "unk")
    if p == "unk":
        return "unk"
    return None if p is None else ["Some", ["Start", p]]
