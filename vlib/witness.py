"""E3 runner: type-level witnesses (compile_fail doc-tests with twins + generic functions)."""
import os, re, shutil, subprocess, hashlib
from . import facts

SRC = os.path.join(facts.VERIF, "witness")


def run(features=("par_iter",)):
    """Returns dict(ok, passed, failed, names, log).  Builds against facts.REPO's current tree."""
    repo = facts.REPO
    work = os.path.join(facts.CACHE, "witness-" + hashlib.sha256(repo.encode()).hexdigest()[:8])
    os.makedirs(os.path.join(work, "src"), exist_ok=True)
    os.makedirs(os.path.join(work, ".cargo"), exist_ok=True)
    toml = open(os.path.join(SRC, "Cargo.toml")).read().replace("/repo/indextree", os.path.join(repo, "indextree"))
    _write_if_changed(os.path.join(work, "Cargo.toml"), toml)
    _write_if_changed(os.path.join(work, "src", "lib.rs"), open(os.path.join(SRC, "src", "lib.rs")).read())
    _write_if_changed(os.path.join(work, ".cargo", "config.toml"), "[net]\noffline = true\n")
    shutil.copyfile(os.path.join(repo, "Cargo.lock"), os.path.join(work, "Cargo.lock"))
    env = dict(os.environ)
    env["CARGO_NET_OFFLINE"] = "true"
    env["CARGO_TARGET_DIR"] = os.path.join(work, "target")
    cmd = ["cargo", "+nightly", "test", "--doc", "--offline"]
    if features:
        cmd += ["--features", ",".join(features)]
    r = subprocess.run(cmd, cwd=work, env=env, stdout=subprocess.PIPE, stderr=subprocess.STDOUT, text=True)
    log = r.stdout
    tests = re.findall(r"^test (src/lib\.rs - \S+ \(line \d+\)(?: - compile fail)?) \.\.\. (\w+)", log, re.M)
    m = re.search(r"test result: (\w+)\. (\d+) passed; (\d+) failed", log)
    passed = int(m.group(2)) if m else 0
    failed = int(m.group(3)) if m else 0
    lib_ok = "error: could not compile `indextree-witness`" not in log and "could not compile `indextree`" not in log
    return {"ok": r.returncode == 0, "passed": passed, "failed": failed, "tests": tests, "log": log,
            "lib_compiles": lib_ok and m is not None, "repo_build_failed": "could not compile `indextree`" in log}


def _write_if_changed(p, s):
    try:
        if open(p).read() == s:
            return
    except OSError:
        pass
    open(p, "w").write(s)


def count_generic_witnesses():
    src = open(os.path.join(SRC, "src", "lib.rs")).read()
    return len(re.findall(r"^\s+is_(send|sync|freeze|copy|static|unpin|clone|eq)::<", src, re.M)), \
        len(re.findall(r"```compile_fail,E\d+", src))
