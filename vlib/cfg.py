"""Per-body control-flow graph, dominators, reachability (MIR JSON)."""


def succs(term, include_unwind=False):
    k = term["k"]
    out = []
    if k == "goto":
        out = [term["t"]]
    elif k == "switch":
        out = [t for _, t in term["arms"]] + [term["otherwise"]]
    elif k in ("call", "drop", "assert"):
        if term.get("t") is not None:
            out = [term["t"]]
        if include_unwind and isinstance(term.get("unwind"), int):
            out.append(term["unwind"])
    return out


class CFG:
    def __init__(self, mir):
        self.blocks = mir["blocks"]
        n = len(self.blocks)
        self.n = n
        self.succ = [succs(b["term"]) for b in self.blocks]
        self.pred = [[] for _ in range(n)]
        for i, ss in enumerate(self.succ):
            for s in ss:
                self.pred[s].append(i)
        self.reach = self._reach(0)
        self._dom = None

    def _reach(self, start):
        seen = {start}
        st = [start]
        while st:
            b = st.pop()
            for s in self.succ[b]:
                if s not in seen:
                    seen.add(s)
                    st.append(s)
        return seen

    def dominators(self):
        if self._dom is not None:
            return self._dom
        nodes = sorted(self.reach)
        dom = {b: set(nodes) for b in nodes}
        dom[0] = {0}
        changed = True
        while changed:
            changed = False
            for b in nodes:
                if b == 0:
                    continue
                ps = [p for p in self.pred[b] if p in self.reach]
                new = set(nodes)
                for p in ps:
                    new &= dom[p]
                new = new | {b}
                if new != dom[b]:
                    dom[b] = new
                    changed = True
        self._dom = dom
        return dom

    def postdominators(self):
        """Post-dominator sets w.r.t. a virtual exit joined to every terminal block (return / diverging call / unreachable)."""
        if getattr(self, "_pdom", None) is not None:
            return self._pdom
        nodes = sorted(self.reach)
        exits = [b for b in nodes if not [s for s in self.succ[b] if s in self.reach]]
        EXIT = -1
        pdom = {b: set(nodes) | {EXIT} for b in nodes}
        pdom[EXIT] = {EXIT}
        changed = True
        while changed:
            changed = False
            for b in nodes:
                ss = [s for s in self.succ[b] if s in self.reach] or [EXIT]
                new = None
                for s2 in ss:
                    new = set(pdom[s2]) if new is None else new & pdom[s2]
                new = new | {b}
                if new != pdom[b]:
                    pdom[b] = new
                    changed = True
        self._pdom = pdom
        return pdom

    def control_equivalent(self, a, b):
        """a and b execute together: one dominates the other and the other post-dominates it."""
        dom, pdom = self.dominators(), self.postdominators()
        return (a in dom.get(b, ()) and b in pdom.get(a, ())) or (b in dom.get(a, ()) and a in pdom.get(b, ()))

    def dominates(self, a, b):
        return a in self.dominators().get(b, set())

    def reachable_from(self, a):
        return self._reach(a)

    def back_edges(self):
        dom = self.dominators()
        out = []
        for b in self.reach:
            for s in self.succ[b]:
                if s in dom.get(b, ()):
                    out.append((b, s))
        return out

    def exits(self):
        """(block, kind) of every terminal block reachable on non-unwind paths."""
        out = []
        for b in sorted(self.reach):
            t = self.blocks[b]["term"]
            if t["k"] in ("return", "unreachable", "resume", "terminate"):
                out.append((b, t["k"]))
            elif t["k"] == "call" and t.get("t") is None:
                out.append((b, "diverge"))
        return out
