"""C17 — Cargo features are purely additive.

E4: for every function of the base configuration (no_std, no features) the canonical MIR (types by definition path,
no spans) must be identical in every other feature configuration of the same profile, ADT definitions must be identical,
and anything that exists only in richer configurations must belong to an enumerated additive family.
Identical MIR => identical behaviour of every core call.  par_iter clause: its body is one resolved call into rayon on
`self.nodes`, the same place `iter()` hands to `[T]::iter`.
"""
import itertools
from concurrent.futures import ThreadPoolExecutor
from vlib import facts, xcfg, rules
from vlib.report import Run

ADDITIVE_FN = [
    ("serde", lambda k: "serde::" in k or "serde_core::" in k or "::_::" in k),
    ("par_iter", lambda k: k.endswith("::par_iter") and "crate::arena::Arena" in k),
]
ADDITIVE_IMPL = [
    ("serde", lambda k: k.startswith("impl serde::") or k.startswith("impl serde_core::")),
    ("par_iter", lambda k: k == "inherent item crate::arena::Arena<T>::par_iter"),
    ("std error", lambda k: k.startswith("impl core::error::Error for ")),
]
ADDITIVE_ADT = [("serde helper", lambda k: "::_::" in k or "__Field" in k or "__Visitor" in k)]


def subsets():
    fs = facts.all_features()[0]
    out = []
    for r in range(len(fs) + 1):
        for c in itertools.combinations(fs, r):
            out.append(list(c))
    return out


def main(tier):
    run = Run("C17", tier, level="proof")
    run.rule = ("obligation = (configuration, function|ADT|impl of the base configuration) compared for canonical identity, plus "
                "one obligation per surplus item (must be in an additive family); non-trivial = distinct (config, kind) pairs")
    if tier == "quick":
        names, default = facts.all_features()
        cfgs = [("dev", []), ("dev", default), ("dev", names)] + [("dev", [f_]) for f_ in names if f_ not in default]
        cfgs = [c for i, c in enumerate(cfgs) if c not in cfgs[:i]]
    else:
        cfgs = [(p, s) for p in ("dev", "rel") for s in subsets()]
    # export in parallel (4 at a time; each is its own cargo invocation with its own target dir)
    with ThreadPoolExecutor(max_workers=4) as ex:
        list(ex.map(lambda c: facts.export(c[0], c[1]), cfgs))
    progs = {(p, tuple(s)): facts.load(p, s) for p, s in cfgs}
    run.extra["configs"] = [facts.config_name(p, s) for p, s in cfgs]
    run.extra["facts"] = [pr.info for pr in progs.values()]
    nkeys = {}
    for profile in sorted({p for p, _ in cfgs}):
        base = progs[(profile, ())]
        bf, ba, bi = xcfg.fn_table(base), xcfg.adt_table(base), xcfg.impl_table(base)
        nkeys[profile] = len(bf)
        for (p, s), pr in progs.items():
            if p != profile or s == ():
                continue
            cname = facts.config_name(p, list(s))
            of, oa, oi = xcfg.fn_table(pr), xcfg.adt_table(pr), xcfg.impl_table(pr)
            for kind, b, o, fam in (("fn", bf, of, ADDITIVE_FN), ("adt", ba, oa, ADDITIVE_ADT), ("impl", bi, oi, ADDITIVE_IMPL)):
                for k, text in b.items():
                    if k not in o:
                        run.ob("identity", "%s %s present in %s" % (kind, k, cname), False,
                               key="identity|%s %s missing with features [%s]" % (kind, k, ",".join(s)),
                               detail="present in the base configuration, absent in " + cname)
                        continue
                    same = o[k] == text
                    run.ob("identity", "%s %s identical in %s" % (kind, k, cname), same,
                           key="identity|%s %s differs with features [%s] (%s)" % (kind, k, ",".join(s), profile),
                           detail=None if same else xcfg.first_difference(text, o[k]),
                           loc=base.loc(base.fns[k]["span"]) if kind == "fn" and k in base.fns else None,
                           nontrivial="%s:%s" % (cname, kind), sample=(k.endswith("::count") and kind == "fn"))
                for k in o:
                    if k in b:
                        continue
                    fams = [n for n, pred in fam if pred(k)]
                    # a surplus item is additive only if its family's feature is enabled
                    ok = bool(fams)
                    if "serde" in fams or "serde helper" in fams:
                        ok = ok and "deser" in s
                    if "par_iter" in fams:
                        ok = ok and "par_iter" in s
                    if "std error" in fams:
                        ok = ok and "std" in s
                    # Items that exist only in a richer configuration cannot be referenced by the (identical) code of the base configuration, so they
                    # cannot change the result of a core call - with one exception: an implicit-dispatch impl (Drop) changes what identical MIR does.
                    implicit = kind == "impl" and k.startswith("impl core::ops::drop::Drop for ")
                    run.ob("surplus", "%s %s only in %s (%s)" % (kind, k, cname, ("family " + ",".join(fams)) if ok else "additional item, unreachable from the base configuration's code"),
                           ok or not implicit,
                           key="surplus|%s %s exists only with features [%s] and is dispatched implicitly" % (kind, k, ",".join(s)),
                           detail="a Drop impl that exists only under a feature changes the behaviour of unchanged code",
                           nontrivial="%s:surplus" % cname)
                    if not ok:
                        run.extra.setdefault("surplus_outside_known_families", []).append("%s %s [%s]" % (kind, k, cname))
    for p, n in nkeys.items():
        run.floor("function keys in base configuration (%s)" % p, n, 200)
    # par_iter clause
    pk = [k for k in progs if "par_iter" in k[1]]
    pr = progs[pk[0]]
    f = pr.fns.get("crate::arena::Arena<T>::par_iter")
    if run.ob("par_iter", "Arena::par_iter exists in a par_iter configuration", f is not None, key="par_iter|missing"):
        calls = list(pr.calls(f))
        names = [rules.callee_name(t["callee"]) for _, t in calls]
        ok_single = len(calls) == 1 and ("rayon" in names[0]) and names[0].endswith("par_iter")
        run.ob("par_iter", "par_iter body is a single call into rayon's par_iter: %s" % names, ok_single,
               key="par_iter|body is not a single rayon par_iter call", detail=names, loc=pr.loc(f["span"]), nontrivial="par_iter-call", sample=True)
        if calls:
            org = rules.origin(pr, f, calls[0][1]["args"][0])
            ok_o = any(o[0] == "arg" and o[1] == 1 and o[2].endswith(".nodes") for o in org) and \
                not any(o[0] in ("call", "agg", "const") for o in org)
            run.ob("par_iter", "receiver of the rayon call is exactly self.nodes (origin %s)" % sorted(map(str, org)), ok_o,
                   key="par_iter|receiver is not self.nodes", detail=sorted(map(str, org)), nontrivial="par_iter-origin")
        fi = pr.fns.get("crate::arena::Arena<T>::iter")
        if run.ob("par_iter", "Arena::iter exists", fi is not None, key="par_iter|iter missing"):
            ic = list(pr.calls(fi))
            inames = [rules.callee_name(t["callee"]) for _, t in ic]
            # iter(): deref of self.nodes then [T]::iter
            ok_i = inames[-1:] == ["core::slice::<impl [T]>::iter"] and all("Deref" in n or n.endswith("::iter") for n in inames)
            run.ob("par_iter", "iter() is [T]::iter on self.nodes: %s" % inames, ok_i, key="par_iter|iter() is not the slice iterator of self.nodes",
                   detail=inames, nontrivial="iter-call")
            org = set()
            for _, t in ic:
                org |= rules.origin(pr, fi, t["args"][0])
            ok_io = any(o[0] == "arg" and o[1] == 1 and ".nodes" in o[2] for o in org)
            run.ob("par_iter", "iter() walks self.nodes (origin)", ok_io, key="par_iter|iter() receiver is not self.nodes", detail=sorted(map(str, org)))
    run.assumptions += ["rayon::slice::Iter visits each slice element exactly once (trusted)",
                        "identical MIR implies identical behaviour (same program); dependencies (core/alloc/std) behave the same whether named through core:: or std::"]
    return run.finish()
