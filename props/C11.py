"""C11 — ids, positions, references and the slot view agree with each other.

E2 decision tables over the argument cases (id of a live slot / of a removed slot / beyond the end; a node inside / outside the arena):
get, get_mut, Index, IndexMut address the slot `index1 - 1`; usize/NonZeroUsize of an id are `position + 1`; get_node_id_at(position of id) returns the
current id for a live slot and None for removed or out-of-range positions; get_node_id(&arena[id]) returns the current id via the slice-layout address model
((p - start) / size_of) and None for a node outside the arena's slice.  E1: count/iter/as_slice/is_empty/Display are functions of the one field they should read.
"""
from vlib import facts, rules, e2props
from vlib.report import Run

EXPECT = {
    ("Arena::get", "live"): lambda x: ["Some", ["node", x]], ("Arena::get", "removed"): lambda x: ["Some", ["node", x]], ("Arena::get", "oob"): lambda x: None,
    ("Arena::get_mut", "live"): lambda x: ["Some", ["node", x]], ("Arena::get_mut", "removed"): lambda x: ["Some", ["node", x]], ("Arena::get_mut", "oob"): lambda x: None,
    ("Arena::index", "live"): lambda x: ["node", x], ("Arena::index", "removed"): lambda x: ["node", x],
    ("Arena::index_mut", "live"): lambda x: ["node", x], ("Arena::index_mut", "removed"): lambda x: ["node", x],
    ("usize::from", "live"): lambda x: ["int", "('idx', '%s')+1" % x], ("usize::from", "removed"): lambda x: ["int", "('idx', '%s')+1" % x],
    ("NonZeroUsize::from", "live"): lambda x: ["nz", "('idx', '%s')+1" % x], ("NonZeroUsize::from", "removed"): lambda x: ["nz", "('idx', '%s')+1" % x],
    ("Arena::get_node_id_at", "live"): lambda x: ["Some", ["id", x, "current-stamp"]], ("Arena::get_node_id_at", "removed"): lambda x: None,
    ("Arena::get_node_id_at", "oob"): lambda x: None,
    ("Arena::get_node_id", "live-slot"): lambda x: ["Some", ["id", x, "current-stamp"]], ("Arena::get_node_id", "removed-slot"): lambda x: ["Some", ["id", x, "current-stamp"]],
    ("Arena::get_node_id", "foreign"): lambda x: None,
    ("Arena::count", "any"): lambda x: ["int", "('len0',)"],
}


def main(tier):
    run = Run("C11", tier, level="proof")
    run.rule = ("obligation = one row of an accessor's decision table (accessor x argument case); cases enumerate live / removed / out-of-range ids and positions and "
                "in-arena / foreign node references exhaustively; non-trivial = distinct rows")
    profiles = ["dev"] if tier == "quick" else ["dev", "rel"]
    data = e2props.load(run, profiles, ["access"])
    for (prof, entry), recs in sorted(data.items()):
        seen = set()
        empties = set()
        # undecided paths count when they abort the whole entry or belong to a row of the tables; rows outside the property (Index with an id beyond the end: a
        # panic, whatever helper raises it) are not part of the claim
        e2props.undecided(run, [r for r in recs if r["exit"] == "undecided" and ("table" not in r or r["table"] == "Arena::is_empty"
                                                                                 or (r["table"], (r.get("case") or [None])[0]) in EXPECT)], prof)
        for rec in recs:
            if rec["exit"] == "undecided" or "table" not in rec:
                continue
            t, case = rec["table"], rec["case"][0]
            x = rec["case"][1] if len(rec["case"]) > 1 else None
            nt = (t, case, str(rec.get("result")))
            if t == "Arena::is_empty":
                if rec["exit"] == "return":
                    empties.add(rec["result"])
                    lo, hi = rec.get("len0", [None, None])
                    okr = (rec["result"] is True and lo == 0 and hi == 0) or (rec["result"] is False and lo is not None and lo >= 1)
                    run.ob("tables", "is_empty/%s = %s exactly when the slot count is %s" % (prof, rec["result"], "0" if rec["result"] else ">= 1"), okr and rec.get("writes") == 0,
                           key="tables|is_empty is not `number of slots == 0`", detail=rec, nontrivial=("is_empty", rec["result"]))
                else:
                    run.ob("tables", "is_empty/%s returns" % prof, False, key="tables|is_empty does not return: %s" % rec["exit"], detail=rec)
                continue
            if (t, case) not in EXPECT:
                continue            # e.g. Index out of range (panics; outside the property)
            seen.add((t, case))
            want = EXPECT[(t, case)](x)
            ok = rec["exit"] == "return" and rec.get("result") == want and rec.get("writes") == 0
            run.ob("tables", "%s/%s on %s = %s" % (t, prof, case, want), ok, key="tables|%s wrong for case %s" % (t, case), detail=dict(rec, expected=want), nontrivial=nt,
                   sample=(t in ("Arena::get_node_id", "Arena::get_node_id_at")))
        run.ob("tables", "is_empty/%s has both outcomes, decided by count() == 0" % prof, empties == {True, False}, key="tables|is_empty is not a function of count()", nontrivial=("is_empty",))
        for k in EXPECT:
            run.ob("coverage", "row %s/%s explored (%s)" % (k[0], k[1], prof), k in seen, key="coverage|row %s/%s missing" % k)
    # the id returned at creation is the id the lookups return (position + current generation)
    alloc = e2props.load(run, profiles, ["new_node", "append_value"])
    for (prof, entry), recs in sorted(alloc.items()):
        n = 0
        for rec in recs:
            if rec["exit"] != "return" or rec.get("returned") is None or rec.get("class") != "possible":
                continue
            n += 1
            run.ob("issued-ids", "%s/%s: the id handed out is the slot's current id (what get_node_id/get_node_id_at report)" % (entry, prof), rec.get("returned_id_is_current") is True,
                   key="issued-ids|%s returns an id whose generation differs from the slot's" % entry, detail=e2props.detail_of(rec), nontrivial=(entry, rec.get("shape")))
        run.floor("allocation cases for %s (%s)" % (entry, prof), n, 3)
    # E1: each view reads exactly the slot vector
    prog = facts.load("dev", None)
    AR = "crate::arena::Arena<T>::"
    VIEW_OK = {
        "count": ("alloc::vec::Vec::<T, A>::len", "core::slice::<impl [T]>::len"),
        "iter": ("core::slice::<impl [T]>::iter", "<&'a alloc::vec::Vec<T, A> as core::iter::traits::collect::IntoIterator>::into_iter", "core::slice::iter::<impl core::iter::traits::collect::IntoIterator for &'a [T]>::into_iter"),
        "as_slice": ("alloc::vec::Vec::<T, A>::as_slice", "<alloc::vec::Vec<T, A> as core::ops::deref::Deref>::deref", "<alloc::vec::Vec<T, A> as core::ops::index::Index<I>>::index",
                     "<alloc::vec::Vec<T, A> as core::convert::AsRef<[T]>>::as_ref", "<alloc::vec::Vec<T, A> as core::borrow::Borrow<[T]>>::borrow"),
        "capacity": ("alloc::vec::Vec::<T, A>::capacity",),
    }
    PASSTHROUGH = ("Deref>::deref", "::as_slice", "AsRef<[T]>>::as_ref", "Borrow<[T]>>::borrow")
    for name, finals in VIEW_OK.items():
        last = finals[0]
        f = prog.fns.get(AR + name)
        if not run.ob("views", "Arena::%s exists" % name, f is not None, key="views|Arena::%s missing" % name):
            continue
        cs = [(rules.callee_name(t["callee"]), t) for _, t in prog.calls(f)]
        names = [c[0] for c in cs]
        ok = len(names) >= 1 and names[-1] in finals and all(n in finals or any(n.endswith(p_) for p_ in PASSTHROUGH) for n in names)
        run.ob("views", "Arena::%s = %s on self.nodes" % (name, last.rsplit("::", 1)[-1]), ok, key="views|Arena::%s is not %s of the slot vector" % (name, last.rsplit("::", 1)[-1]), detail=names, nontrivial=("view", name), sample=True)
        org = set()
        for _, t in cs:
            org |= rules.origin(prog, f, t["args"][0])
        run.ob("views", "Arena::%s reads self.nodes" % name, any(o[0] == "arg" and o[1] == 1 and ".nodes" in o[2] for o in org) and not any(o[0] == "const" for o in org),
               key="views|Arena::%s does not read self.nodes" % name, detail=sorted(map(str, org)))
    f = prog.fns.get(AR + "is_empty")
    if run.ob("views", "Arena::is_empty exists", f is not None, key="views|is_empty missing"):
        names = [rules.callee_name(t["callee"]) for _, t in prog.calls(f)]
        okn = {AR + "count", "alloc::vec::Vec::<T, A>::is_empty", "alloc::vec::Vec::<T, A>::len", "core::slice::<impl [T]>::is_empty", "core::slice::<impl [T]>::len",
               "<alloc::vec::Vec<T, A> as core::ops::deref::Deref>::deref", "alloc::vec::Vec::<T, A>::as_slice", AR + "as_slice"}
        run.ob("views", "is_empty() looks only at the number of slots (count() / nodes.len() / nodes.is_empty()): %s" % names, bool(names) and set(names) <= okn,
               key="views|is_empty is not count() == 0", detail=names, nontrivial=("view", "is_empty"))
    f = prog.fns.get("<crate::id::NodeId as core::fmt::Display>::fmt")
    if run.ob("views", "Display for NodeId exists", f is not None, key="views|Display missing"):
        cone = rules.Index(prog).reachable([f["key"]])          # fmt and the crate-local helpers it goes through
        reads = [s for s in rules.field_sites(prog, "crate::id::NodeId") if s["fn"] in cone]
        flds = sorted({s["field"] for s in reads})
        run.ob("views", "Display for NodeId formats index1 only", flds == ["index1"], key="views|Display for NodeId reads %s" % flds, detail=flds, nontrivial=("view", "display"))
    run.extra["address_model"] = "element i of a slice lives at start + i * size_of::<T>() and distinct allocations are disjoint (language guarantees)"
    run.assumptions += ["V: ids/positions are those of the stated cases", "slice layout and allocation disjointness (language guarantees)"]
    return run.finish()
