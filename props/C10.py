"""C10 — double-ended sibling/children iterators obey the DoubleEndedIterator laws.

Invariant of a double-ended cursor pair over a sibling chain:  Inv(h, t) = exhausted (None, None), or both Some with t reachable from h along the
iterator's forward link.  E2 decides (1) constructors establish Inv with head..tail = the documented sequence (in particular head.is_some() <=>
tail.is_some(), and the back cursor is the end of the chain), (2) next from (h, t): yields h; exhausted if h == t, else (fwd(h), t), (3) next_back
symmetric, (4) exhausted stays exhausted.  The induction on the remaining length is the written argument in the evidence.
"""
from vlib import facts, rules, e2props
from vlib.report import Run
from vlib.itercheck import wrap, is_field

# name -> (front start, forward link, backward link, back cursor for a node with a parent)
KINDS = {"Children": ("first_child", "next_sibling", "previous_sibling", None),
         "FollowingSiblings": ("self", "next_sibling", "previous_sibling", "parent.last_child"),
         "PrecedingSiblings": ("self", "previous_sibling", "next_sibling", "parent.first_child")}


def main(tier):
    run = Run("C10", tier, level="proof")
    run.rule = ("obligation = one row of the double-ended state machine (constructor case or (method, cursor-pair case)) compared with the invariant-based table; "
                "cases: parented / parentless start node, head == tail, head != tail, exhausted; non-trivial = distinct (table, case, outcome)")
    profiles = ["dev"] if tier == "quick" else ["dev", "rel"]
    data = e2props.load(run, profiles, ["iters"])
    for (prof, entry), recs in sorted(data.items()):
        rows = {}
        e2props.undecided(run, [r for r in recs if "table" not in r], prof)
        for rec in recs:
            if "table" not in rec:
                continue
            name, meth = rec["table"].split("::", 1)
            if name not in KINDS:
                continue
            start, fwd, bwd, backcur = KINDS[name]
            rows[(name, meth, str(rec.get("case")))] = rows.get((name, meth, str(rec.get("case"))), 0) + 1
            nt = (rec["table"], str(rec.get("case")), str(rec.get("yield")), str(rec.get("state")))
            if rec["exit"] != "return":
                run.ob("decided", "%s/%s decided" % (rec["table"], prof), False, key="decided|%s: %s" % (rec["table"], (rec.get("msg") or rec["exit"])[:80]), detail=rec)
                continue
            stt, links = rec.get("state", {}), rec.get("links", {})
            h, t = stt.get("head"), stt.get("tail")
            if meth == "new":
                x = rec["node"]
                facts_ = rec.get("facts", {})
                fx = {x: facts_}
                if name == "Children":
                    ok = is_field(h, fx, x, "first_child") and is_field(t, fx, x, "last_child")
                    run.ob("constructor", "Children::new/%s = (first_child, last_child) (both or none by J2e)" % prof, ok,
                           key="constructor|Children::new is not (first_child, last_child)", detail=rec, nontrivial=nt, sample=True)
                    continue
                run.ob("constructor", "%s::new/%s: front cursor = the node" % (name, prof), h == ["Some", x], key="constructor|%s::new: front cursor is not the node" % name, detail=rec, nontrivial=nt)
                par = facts_.get("parent", "unk")
                if par not in ("unk", None):
                    fld = backcur.split(".")[1]
                    ok = t == ["lazy", par, fld] or (facts_.get(backcur, "unk") not in ("unk", None) and t == wrap(facts_[backcur]))
                    run.ob("constructor", "%s::new/%s (node has a parent): back cursor = %s" % (name, prof, backcur), ok,
                           key="constructor|%s::new: back cursor of a parented node is not %s" % (name, backcur), detail=rec, nontrivial=nt, sample=True)
                elif par is None:
                    # parentless: the back cursor must be the end of the node's own chain (Some(e) with fwd(e) = None, e reachable from the node)
                    some = isinstance(t, list) and t[0] == "Some"
                    run.ob("constructor", "%s::new/%s (parentless node): back cursor is set (head.is_some() <=> tail.is_some())" % (name, prof), some,
                           key="constructor|%s::new builds (Some(node), None) for a parentless node: next_back()/rev() yield nothing" % name, detail=rec, nontrivial=nt, sample=True)
                    if some:
                        e = t[1]
                        ends = rec.get("ends", {}).get("tail", {})
                        end_ok = ends.get(fwd, "unk") is None
                        reach_ok = (e == x) or [fwd, x, e] in rec.get("reach", []) or rec.get("ends", {}).get("head", {}).get(fwd) == e
                        run.ob("constructor", "%s::new/%s (parentless node): back cursor is the end of the node's chain" % (name, prof), end_ok and reach_ok,
                               key="constructor|%s::new: back cursor of a parentless node is not the end of its sibling chain" % name, detail=rec, nontrivial=nt)
                else:
                    run.ob("constructor", "%s::new/%s: the parent link was inspected" % (name, prof), False, key="constructor|%s::new does not depend on the parent" % name, detail=rec)
                continue
            case = rec["case"][0]
            info = rec.get("info", {})
            run.ob("pure", "%s/%s writes nothing" % (rec["table"], prof), rec.get("writes") == 0, key="pure|%s writes to the arena" % rec["table"], detail=rec)
            y = rec.get("yield")
            if case == "SS-eq":
                ok = y == ["Some", info["c"]] and h is None and t is None
                run.ob("steps", "%s/%s, head == tail: yields it, becomes exhausted" % (rec["table"], prof), ok, key="steps|%s with head == tail does not yield it and exhaust" % rec["table"], detail=rec, nontrivial=nt, sample=True)
            elif case == "SS-ne":
                hh, tt = info["h"], info["t"]
                if meth == "next":
                    ok = y == ["Some", hh] and is_field(h, links, hh, fwd) and t == ["Some", tt]
                    run.ob("steps", "%s/%s, head != tail: yields head, head' = %s(head), tail unchanged" % (rec["table"], prof, fwd), ok,
                           key="steps|%s::next with head != tail is not (yield head, head' = %s, tail kept)" % (name, fwd), detail=rec, nontrivial=nt, sample=True)
                else:
                    ok = y == ["Some", tt] and is_field(t, links, tt, bwd) and h == ["Some", hh]
                    run.ob("steps", "%s/%s, head != tail: yields tail, tail' = %s(tail), head unchanged" % (rec["table"], prof, bwd), ok,
                           key="steps|%s::next_back with head != tail is not (yield tail, tail' = %s, head kept)" % (name, bwd), detail=rec, nontrivial=nt, sample=True)
            elif case == "NN":
                ok = y is None and h is None and t is None
                run.ob("steps", "%s/%s, exhausted: None, stays exhausted" % (rec["table"], prof), ok, key="steps|%s on an exhausted iterator does not stay exhausted" % rec["table"], detail=rec, nontrivial=nt)
            else:
                # mixed states (Some, None) / (None, Some) are unreachable under Inv: informational rows
                run.count_eval()
        for name in KINDS:
            for meth, cases in (("new", ["None"]), ("next", ["['SS-eq', None]", "['SS-ne', None]", "['NN', None]"]), ("next_back", ["['SS-eq', None]", "['SS-ne', None]", "['NN', None]"])):
                for c in cases:
                    run.ob("coverage", "%s::%s case %s explored (%s)" % (name, meth, c, prof), rows.get((name, meth, c), 0) >= 1, key="coverage|%s::%s case %s missing" % (name, meth, c))
        for name in ("FollowingSiblings", "PrecedingSiblings"):
            run.ob("coverage", "%s::new explored for a parented and a parentless node (%s)" % (name, prof), rows.get((name, "new", "None"), 0) >= 2,
                   key="coverage|%s::new: parented/parentless cases not both explored" % name)
    run.extra["written_argument"] = (
        "Induction on the number k of nodes from head to tail along the forward link (Inv). k = 1 (head == tail): either call yields the node and exhausts (row SS-eq); afterwards "
        "both return None forever (row NN). k > 1: next yields head and leaves (fwd(head), tail), which satisfies Inv with k - 1 (tail is reachable from head, head != tail, so "
        "fwd(head) is Some and tail is reachable from it); next_back symmetrically by J2a (bwd is the inverse of fwd). Hence any interleaving yields each of the k nodes once, "
        "fronts in forward order, backs in backward order, and rev() is the reversal. The constructor rows establish Inv with head..tail = the documented sequence: for a parented "
        "node the parent's first/last child is the end of the node's chain (J2c/J4); for a parentless node the back cursor is the end reached by following the forward link.")
    run.assumptions += ["pre-state satisfies J and J3", "V: the start node is live"]
    return run.finish()
