"""C03 — insert, move and detach put exactly the requested subtree at the requested place.

E2 compares, for every pre-state case in which the request is possible, the implementation's post-heap with the reference model
(gap/place, DESIGN 4.6) on every field either of them touches (extensional equality, which includes the frame).
"""
from vlib import facts, rules, e2props
from vlib.report import Run

ENTRIES = ["detach", "checked_append", "checked_prepend", "checked_insert_after", "checked_insert_before", "append_value"]


def main(tier):
    run = Run("C03", tier, level="proof")
    run.rule = ("case = abstract pre-state consistent with J and V in which the request is possible; obligation = exit is Ok and post-heap == "
                "model post-heap on all touched fields; non-trivial = distinct (entry, shape) with a non-empty overlay")
    profiles = ["dev"] if tier == "quick" else ["dev", "rel"]
    data = e2props.load(run, profiles, ENTRIES)
    for (prof, entry), recs in sorted(data.items()):
        e2props.undecided(run, recs, prof)
        npos = 0
        noop = 0
        for rec in recs:
            if rec["exit"] == "undecided" or rec.get("class") != "possible":
                continue
            npos += 1
            val = rec.get("value") or ""
            okexit = rec["exit"] == "return" and (val == "Ok(())" if entry.startswith("checked_") else (val == "()" if entry == "detach" else val.startswith("NodeId")))
            got = "panic %s" % e2props.panic_kind(rec.get("msg")) if rec["exit"] == "panic" else rec.get("value")
            run.ob("succeeds", "%s/%s: possible request returns" % (entry, prof), okexit,
                   key="%s|possible request does not succeed: %s" % (entry, got), detail=e2props.detail_of(rec), loc=rec.get("at"),
                   nontrivial=e2props.nontrivial_tag(rec))
            if not okexit:
                continue
            md = rec.get("model_diff")
            fields = sorted({d[0].split(".")[1] for d in (md or []) if "." in d[0]})
            run.ob("model-equal", "%s/%s: post-heap equals reference model" % (entry, prof), md == [],
                   key="%s|post-heap differs from the model on %s" % (entry, ",".join(fields) or "?"), detail=e2props.detail_of(rec),
                   nontrivial=e2props.nontrivial_tag(rec))
            if entry == "append_value":
                run.ob("model-equal", "append_value/%s returns the current id of the new node" % prof, rec.get("returned_id_is_current") is True,
                       key="append_value|returned id is not the current id of the node it created", detail=e2props.detail_of(rec))
            if not rec.get("overlay"):
                noop += 1
            elif md == [] and len(run.samples) < 6:
                run.sample(e2props.sample_of(rec))
        run.floor("possible cases for %s (%s)" % (entry, prof), npos, 6)
        if entry.startswith("checked_"):
            run.ob("noop", "%s/%s: re-inserting a node where it already is succeeds as a no-op (%d cases)" % (entry, prof, noop), noop >= 1,
                   key="%s|no successful no-op case (re-insert in place)" % entry)
    # append_value == new_node; append : structural half (the arena part is literally new_node's)
    prog = facts.load("dev", None)
    f = prog.fns.get("crate::id::NodeId::append_value")
    if run.ob("append_value", "append_value exists", f is not None, key="append_value|missing"):
        calls = [(bi, t, rules.callee_name(t["callee"])) for bi, t in prog.calls(f)]
        nn = [c for c in calls if c[2] == "crate::arena::Arena<T>::new_node"]
        ok = len(nn) == 1
        own_alloc = rules.APPEND_VALUE in rules.alloc_gates(prog)
        if own_alloc and not nn:
            # append_value has an allocation path of its own: the arena half is decided semantically, row by row, like new_node's (C07's obligations on `append_alloc`)
            arecs = e2props.load(run, ["dev"], ["append_alloc"])
            na = 0
            for (prof, entry), recs in sorted(arecs.items()):
                e2props.undecided(run, recs, prof)
                for rec in recs:
                    if rec["exit"] != "return":
                        continue
                    na += 1
                    e2props.alloc_obligations(run, entry, prof, rec, e2props.detail_of(rec), ("append_alloc", rec.get("shape")))
            run.floor("allocation cases of append_value", na, 2)
        else:
            run.ob("append_value", "append_value calls Arena::new_node exactly once", ok,
                   key="append_value|does not call Arena::new_node exactly once", detail=[c[2] for c in calls], nontrivial="append_value-alloc")
        if ok:
            first = nn[0]
            org = [sorted(map(str, rules.origin(prog, f, a))) for a in first[1]["args"]]
            fw = any("'arg', 3" in o for o in org[0]) and any("'arg', 2" in o for o in org[1])
            run.ob("append_value", "new_node receives the caller's arena and value", fw, key="append_value|new_node arguments are not (arena, value)", detail=org)
            rets = rules.origin(prog, f, {"k": "copy", "place": {"l": 0, "p": []}})
            run.ob("append_value", "append_value returns new_node's id", any(o[0] == "call" and o[1] == "crate::arena::Arena<T>::new_node" for o in rets),
                   key="append_value|returned id is not new_node's result", detail=sorted(map(str, rets)))
    run.assumptions += ["A1 (V)", "reference model gap/place is the documented meaning of detach/append/prepend/insert_before/insert_after"]
    return run.finish()
