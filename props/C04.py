"""C04 — remove splices the children into place; remove_subtree deletes exactly a subtree.

remove(x): E2 compares the post-heap with the reference model (gap x; all children re-parented to x's parent and spliced between x's
former neighbours; x freed) in every case; the child chain is handled by the verified cursor-loop summary of rewrite_parents.
remove_subtree(x): see `subtree` group (per-iteration step table + written induction).
"""
from vlib import facts, rules, e2props
from vlib.report import Run


def main(tier):
    run = Run("C04", tier, level="proof")
    run.rule = ("case = abstract pre-state of remove(x) consistent with J and V (children chain of unbounded length summarised by a quantified write); "
                "obligation = returns, post-heap == model on all touched fields and on a generic child, x is freed exactly once; "
                "non-trivial = distinct shapes")
    profiles = ["dev"] if tier == "quick" else ["dev", "rel"]
    data = e2props.load(run, profiles, ["remove"])
    for (prof, entry), recs in sorted(data.items()):
        e2props.undecided(run, recs, prof)
        nsum = 0
        for rec in recs:
            if rec["exit"] == "undecided":
                continue
            nt = e2props.nontrivial_tag(rec)
            ok = rec["exit"] == "return"
            got = "panic %s" % e2props.panic_kind(rec.get("msg")) if rec["exit"] == "panic" else rec.get("value")
            run.ob("remove-returns", "remove/%s returns" % prof, ok, key="remove|does not return: %s" % got, detail=e2props.detail_of(rec), loc=rec.get("at"), nontrivial=nt)
            if not ok:
                continue
            md = rec.get("model_diff")
            fields = sorted({d[0].split(".")[1] if "." in d[0] else d[0] for d in (md or [])})
            run.ob("remove-model", "remove/%s: post-heap equals the model" % prof, md == [],
                   key="remove|post-heap differs from the model on %s" % (",".join(fields) or "?"), detail=e2props.detail_of(rec), nontrivial=nt)
            freed = rec.get("freed", [])
            x = rec.get("x")
            run.ob("remove-frees-x", "remove/%s frees exactly x, once" % prof, freed == [x],
                   key="remove|frees %s instead of exactly the removed node" % ("nothing" if not freed else "other/more nodes"), detail=e2props.detail_of(rec), nontrivial=nt)
            if rec.get("summaries"):
                nsum += 1
            if md == [] and len(run.samples) < 6 and rec.get("summaries"):
                run.sample(e2props.sample_of(rec))
        run.floor("remove cases (%s)" % prof, len(recs), 200)
        run.floor("remove cases that went through the children-loop summary (%s)" % prof, nsum, 50)
    subtree(run, profiles)
    run.assumptions += ["A1 (V)", "J4 (children of x = next-chain from first(x)) is used by the loop summary; it follows from J2+J3"]
    return run.finish()


INDUCTION = (
    "remove_subtree(x): Inv at the loop head = J holds; x has no parent and no siblings; the cursor is x or a proper descendant of x (or None); every node "
    "removed so far was in subtree_H0(x); nodes outside subtree_H0(x) have not been written since the prefix. Prefix: the code up to the first arrival at the "
    "(outermost) loop head equals detach(x) (model gap) and sets cursor = x, which establishes Inv. Step table (decided by E2 on a generic cursor m under Inv, "
    "whatever the shape of the loop body - inner loops are summarised as walks along acyclic link chains): an iteration that frees nothing writes nothing and "
    "moves the cursor to a proper descendant of m; an iteration that frees nodes has exactly the effect of the model remove(f) on leaves f at or below m "
    "(which touches only f, its siblings and its parent - all inside the subtree when f != x, only x when f == x), and afterwards either the cursor is a node of "
    "the subtree that still exists, or the loop is left / the cursor exhausted - which happens only when x itself was freed. Hence Inv is preserved, only nodes of "
    "the subtree are removed or written, and the loop can only exit after x has been removed; x is removed only when it is a leaf, i.e. after all its children "
    "were removed; by induction on the height every descendant is removed. Termination: each iteration either moves strictly down (bounded by the finite "
    "acyclic depth, J3) or removes one live node.")


def subtree(run, profiles):
    data = e2props.load(run, profiles, ["remove_subtree"])
    for (prof, entry), recs in sorted(data.items()):
        e2props.undecided(run, recs, prof)
        n = {"prefix": 0, "iteration": 0, "exit": 0, "desc": 0, "leaf": 0}
        for rec in recs:
            if rec["exit"] == "undecided":
                continue
            ph = rec.get("phase")
            nt = (entry, ph, rec.get("shape"))
            n[ph] = n.get(ph, 0) + 1
            if ph == "prefix":
                if rec["exit"] == "return":
                    # finished without entering the loop: allowed exactly when x is a leaf and the effect is detach(x) followed by remove(x)
                    ok = rec.get("pre_first_child") is None and rec.get("freed") == [rec.get("x")] and rec.get("model_diff") == [] and not rec.get("J")
                    run.ob("subtree-prefix", "remove_subtree/%s finishes a leaf without the loop: effect == detach(x); remove(x)" % prof, ok,
                           key="remove_subtree|prefix is not detach(x) followed by the loop (%s)" % rec["exit"], detail=e2props.detail_of(rec), nontrivial=nt)
                    continue
                ok = rec["exit"] == "loophead" and rec.get("model_diff") == [] and not rec.get("J")
                run.ob("subtree-prefix", "remove_subtree/%s prefix == detach(x), reaches the loop" % prof, ok,
                       key="remove_subtree|prefix is not detach(x) followed by the loop (%s)" % rec["exit"], detail=e2props.detail_of(rec), nontrivial=nt)
            elif ph == "iteration":
                fin = rec["exit"] in ("loophead", "return")
                run.ob("subtree-step", "remove_subtree/%s iteration ends at the loop head or returns" % prof, fin,
                       key="remove_subtree|an iteration leaves the loop: %s %s" % (rec["exit"], e2props.panic_kind(rec.get("msg")) if rec.get("msg") else ""),
                       detail=e2props.detail_of(rec), loc=rec.get("at"), nontrivial=nt)
                if not fin:
                    continue
                jbad = sorted({j[0] for j in rec.get("J", [])} | {j[0] for j in rec.get("J3", [])})
                run.ob("subtree-step", "remove_subtree/%s iteration preserves J" % prof, not jbad,
                       key="remove_subtree|iteration breaks the loop invariant J: %s" % ";".join(jbad), detail=e2props.detail_of(rec), nontrivial=nt)
                m = rec.get("x")
                freed = rec.get("freed") or []
                md = rec.get("model_diff")
                nxt = rec.get("next_cursor")
                if not freed:
                    n["desc"] += 1
                    ok = not rec.get("overlay") and rec["exit"] == "loophead" and rec.get("next_in_subtree") and rec.get("progress")
                    run.ob("subtree-step", "remove_subtree/%s: an iteration that frees nothing writes nothing and moves the cursor strictly down" % prof, ok,
                           key="remove_subtree|step on an inner node is not 'descend to the first child without writing'", detail=e2props.detail_of(rec), nontrivial=nt)
                else:
                    n["leaf"] += 1
                    ok_model = md == [] and rec.get("freed_below_cursor") is True
                    if rec["exit"] == "loophead":
                        # the walk goes on: inside the subtree, on a node that still exists - or the cursor is exhausted, which is allowed only once x is gone
                        ok_next = (rec.get("next_in_subtree") and rec.get("next_is_live")) or (nxt is None and rec.get("root_freed"))
                    else:
                        ok_next = bool(rec.get("root_freed"))
                    ok = ok_model and ok_next
                    why = "model" if md != [] else ("freed" if not rec.get("freed_below_cursor") else "cursor")
                    run.ob("subtree-step", "remove_subtree/%s: effect == remove of leaves below the cursor; the walk continues inside the subtree and ends only after x is gone" % prof, ok,
                           key="remove_subtree|step on a leaf differs from 'remove it and continue with its parent' (%s)" % why, detail=e2props.detail_of(rec), nontrivial=nt)
                    if ok and len(run.samples) < 8:
                        run.sample(e2props.sample_of(rec))
            elif ph == "exit":
                ok = rec["exit"] == "return" and not rec.get("overlay")
                run.ob("subtree-exit", "remove_subtree/%s: exhausted cursor -> returns without further writes" % prof, ok,
                       key="remove_subtree|loop exit writes or does not return", detail=e2props.detail_of(rec), nontrivial=nt)
        run.floor("remove_subtree prefix cases (%s)" % prof, n["prefix"], 10)
        run.floor("remove_subtree iterations that free a node (%s)" % prof, n["leaf"], 20)
        run.floor("remove_subtree iterations that only descend, or loop exits (%s)" % prof, n["desc"] + n["exit"] + len([r for r in recs if r.get("phase") == "iteration" and r.get("exit") == "return"]), 2)
    run.extra["written_induction_remove_subtree"] = INDUCTION
