"""C09 — every traversal yields exactly the nodes the forest defines, in documented order.

E2 computes, for every iterator constructor and every `next` body, (cursor', yielded) from a generic state under J and compares with the table
written from the documentation (DESIGN 5/C09); NodeEdge::next_traverse / prev_traverse are compared with their tables and shown to be mutually
inverse; Descendants is `find_map` over its Traverse with the closure table Start(n) -> Some(n), End(_) -> None.  That iterating these steps
yields parents / siblings / children in order / depth-first pre-order / a balanced Start-End sequence is the written argument in the evidence.
"""
from vlib import facts, rules, e2props
from vlib.report import Run
from vlib.itercheck import wrap, is_field, exp_next_traverse, exp_prev_traverse

SINGLE = {"Ancestors": ("self", ["parent"]), "Predecessors": ("self", ["previous_sibling", "parent"]), "ReverseChildren": ("last_child", ["previous_sibling"])}
DOUBLE = {"Children": ("first_child", "next_sibling"), "FollowingSiblings": ("self", "next_sibling"), "PrecedingSiblings": ("self", "previous_sibling")}


def main(tier):
    run = Run("C09", tier, level="proof")
    run.rule = ("obligation = one row of a step table: (iterator method, generic cursor state, materialised neighbourhood) -> (yield, next cursor) equals the "
                "documented step; rows are enumerated exhaustively by case-splitting the cursor/edge variant, aliasing with the root and the links read; "
                "non-trivial = distinct (table, case, outcome)")
    profiles = ["dev"] if tier == "quick" else ["dev", "rel"]
    data = e2props.load(run, profiles, ["iters"])
    for (prof, entry), recs in sorted(data.items()):
        seen = {}
        e2props.undecided(run, [r for r in recs if "table" not in r], prof)
        for rec in recs:
            if "table" not in rec:
                continue
            t = rec["table"]
            name, meth = t.split("::", 1)
            seen[t] = seen.get(t, 0) + 1
            nt = (t, str(rec.get("case")), str(rec.get("yield")), str(rec.get("state")))
            if rec["exit"] != "return":
                run.ob("tables", "%s/%s is decided" % (t, prof), False, key="tables|%s: %s" % (t, (rec.get("msg") or rec["exit"])[:80]), detail=rec)
                continue
            if "writes" in rec:
                run.ob("pure", "%s/%s writes nothing" % (t, prof), rec["writes"] == 0, key="pure|%s writes to the arena" % t, detail=rec)
            stt = rec.get("state", {})
            links = rec.get("links", {})
            if meth == "new":
                x = rec["node"]
                fx = {x: {k: v for k, v in rec.get("facts", {}).items()}}
                if name in SINGLE:
                    start = SINGLE[name][0]
                    v = stt.get("node")
                    ok = v == ["Some", x] if start == "self" else is_field(v, fx, x, start)
                    run.ob("constructors", "%s::new/%s starts at %s" % (name, prof, start), ok, key="constructors|%s::new does not start at %s" % (name, start), detail=rec, nontrivial=nt, sample=True)
                elif name in DOUBLE:
                    start = DOUBLE[name][0]
                    v = stt.get("head")
                    ok = v == ["Some", x] if start == "self" else is_field(v, fx, x, start)
                    run.ob("constructors", "%s::new/%s: front cursor starts at %s" % (name, prof, start), ok, key="constructors|%s::new front cursor does not start at %s" % (name, start), detail=rec, nontrivial=nt)
                elif name == "Traverse":
                    run.ob("constructors", "Traverse::new/%s = (root x, next Start(x))" % prof, stt.get("root") == x and stt.get("next") == ["Some", ["Start", x]],
                           key="constructors|Traverse::new is not (root, Some(Start(root)))", detail=rec, nontrivial=nt, sample=True)
                elif name == "ReverseTraverse":
                    run.ob("constructors", "ReverseTraverse::new/%s = (root x, next End(x))" % prof, stt.get("root") == x and stt.get("next") == ["Some", ["End", x]],
                           key="constructors|ReverseTraverse::new is not (root, Some(End(root)))", detail=rec, nontrivial=nt)
                elif name == "Descendants":
                    run.ob("constructors", "Descendants::new/%s wraps Traverse::new(x)" % prof, stt.get("root") == x and stt.get("next") == ["Some", ["Start", x]],
                           key="constructors|Descendants::new is not Traverse::new(node)", detail=rec, nontrivial=nt)
                continue
            if name in SINGLE and meth == "next":
                c = rec["info"].get("c")
                if c is None:
                    ok = rec["yield"] is None and stt.get("node") is None
                    run.ob("steps", "%s::next/%s on an exhausted cursor: None, stays exhausted" % (name, prof), ok, key="steps|%s::next: exhausted cursor not fused" % name, detail=rec, nontrivial=nt)
                    continue
                okY = rec["yield"] == ["Some", c]
                run.ob("steps", "%s::next/%s yields the cursor" % (name, prof), okY, key="steps|%s::next does not yield its cursor" % name, detail=rec, nontrivial=nt)
                chain = SINGLE[name][1]
                v = stt.get("node")
                lk = links.get(c, {})
                # documented step: first non-None link in `chain`
                exp_ok = False
                for i, f in enumerate(chain):
                    earlier_none = all(lk.get(g, "unk") is None for g in chain[:i])
                    if not earlier_none:
                        break
                    last = (i == len(chain) - 1)
                    if last:
                        exp_ok = is_field(v, links, c, f)
                    elif lk.get(f, "unk") not in ("unk", None):
                        exp_ok = v == wrap(lk[f])
                        break
                    elif lk.get(f, "unk") == "unk":
                        exp_ok = False
                        break
                run.ob("steps", "%s::next/%s: cursor' = %s" % (name, prof, " ?: ".join(chain)), exp_ok, key="steps|%s::next: next cursor is not `%s`" % (name, " ?: ".join(chain)),
                       detail=rec, nontrivial=nt, sample=True)
            elif name in DOUBLE and meth == "next" and rec["case"][0] == "SS-ne":
                h = rec["info"]["h"]
                ok = rec["yield"] == ["Some", h] and is_field(stt.get("head"), links, h, DOUBLE[name][1])
                run.ob("steps", "%s::next/%s: yields the front cursor, front' = %s" % (name, prof, DOUBLE[name][1]), ok,
                       key="steps|%s::next: front step is not `%s`" % (name, DOUBLE[name][1]), detail=rec, nontrivial=nt, sample=True)
            elif name in ("Traverse", "ReverseTraverse") and meth == "next":
                variant, alias = rec["case"]
                root = rec["info"]["root"]
                if variant is None:
                    ok = rec["yield"] is None and stt.get("next") is None
                    run.ob("steps", "%s::next/%s exhausted: None, stays exhausted" % (name, prof), ok, key="steps|%s::next: exhausted traversal not fused" % name, detail=rec, nontrivial=nt)
                    continue
                c = rec["info"]["c"]
                run.ob("steps", "%s::next/%s yields the pending edge" % (name, prof), rec["yield"] == ["Some", [variant, c]], key="steps|%s::next does not yield the pending edge" % name, detail=rec, nontrivial=nt)
                stop = ("End" if name == "Traverse" else "Start")
                if variant == stop and c == root:
                    exp = None
                else:
                    exp = (exp_next_traverse if name == "Traverse" else exp_prev_traverse)(variant, c, links.get(c, {}))
                ok = exp != "unk" and stt.get("next") == exp and stt.get("root") == root
                run.ob("steps", "%s::next/%s: next' = %s" % (name, prof, "None after %s(root)" % stop if exp is None and variant == stop and c == root else "documented step"), ok,
                       key="steps|%s::next: successor edge differs from the documented step (%s)" % (name, "stop at %s(root)" % stop if variant == stop and c == root else variant),
                       detail=dict(rec, expected=exp), nontrivial=nt, sample=(variant == stop))
            elif name == "NodeEdge":
                variant = rec["case"][0]
                c = rec["node"]
                exp = (exp_next_traverse if meth == "next_traverse" else exp_prev_traverse)(variant, c, rec["links"])
                run.ob("edge-tables", "NodeEdge::%s/%s(%s) = documented step" % (meth, prof, variant), exp != "unk" and rec["result"] == exp,
                       key="edge-tables|NodeEdge::%s(%s) differs from the documented step" % (meth, variant), detail=dict(rec, expected=exp), nontrivial=nt, sample=True)
                if rec["result"] is not None:
                    inv = rec.get("inverse", [])
                    ok = len(inv) >= 1 and all(i == ["return", ["Some", [variant, c]]] for i in inv)
                    run.ob("edge-tables", "NodeEdge/%s: %s then its inverse returns the original edge" % (prof, meth), ok,
                           key="edge-tables|%s is not inverted by the opposite step (%s)" % (meth, variant), detail=rec, nontrivial=nt + ("inv",))
            elif t == "Descendants::next::steps":
                exp = rec.get("expected")
                got = rec.get("result")
                got = list(got) if isinstance(got, (list, tuple)) else got
                ok = rec["exit"] == "return" and got == exp and rec.get("inner_calls") == len(rec["case"]) and rec.get("writes") == 0 and rec.get("inner_untouched") is True
                run.ob("descendants", "Descendants::next/%s over inner edges %s: skips End edges, yields the first Start's node, takes no further edge" % (prof, rec["case"]), ok,
                       key=("descendants|next over inner edges %s gives %s" % (rec["case"], got if rec["exit"] == "return" else rec["exit"])) if rec.get("inner_untouched", True)
                       else "descendants|next writes to the inner traversal instead of only calling its next()", detail=rec, nontrivial=nt, sample=True)
            elif t == "Descendants::next::closure":
                variant = rec["case"][0]
                exp = ["Some", rec["node"]] if variant == "Start" else None
                run.ob("descendants", "Descendants closure/%s: %s -> %s" % (prof, variant, "Some(n)" if exp else "None"), rec["result"] == exp,
                       key="descendants|closure maps %s wrongly" % variant, detail=rec, nontrivial=nt, sample=True)
        need = ["Ancestors::new", "Ancestors::next", "Predecessors::next", "ReverseChildren::new", "ReverseChildren::next", "Children::new", "Children::next",
                "FollowingSiblings::new", "FollowingSiblings::next", "PrecedingSiblings::new", "PrecedingSiblings::next", "Traverse::new", "Traverse::next",
                "ReverseTraverse::new", "ReverseTraverse::next", "NodeEdge::next_traverse", "NodeEdge::prev_traverse", "Descendants::new"]
        need.append("Descendants::next::steps" if seen.get("Descendants::next::steps") else "Descendants::next::closure")
        for t in need:
            run.ob("coverage", "table %s/%s computed (%d rows)" % (t, prof, seen.get(t, 0)), seen.get(t, 0) >= 1, key="coverage|no rows for " + t)
        run.floor("table rows (%s)" % prof, len(recs), 80)
    # E1: Descendants::next is find_map over self.0; NodeId::xxx(arena) constructors call K::new(arena, self)
    prog = facts.load("dev", None)
    dn = [k for k in prog.fns if k.startswith("<crate::traverse::Descendants<") and k.endswith("::next")]
    steps_used = any(rec.get("table") == "Descendants::next::steps" for recs in data.values() for rec in recs)
    for k in dn:
        if steps_used:
            break        # an explicit loop: decided by the step table above
        f = prog.fns[k]
        names = [rules.callee_name(t["callee"]) for _, t in prog.calls(f)]
        ok = names == ["core::iter::traits::iterator::Iterator::find_map"]
        run.ob("descendants", "Descendants::next is exactly find_map over the inner Traverse", ok, key="descendants|next is not a single find_map call", detail=names, nontrivial="dn")
        if ok:
            t = [t for _, t in prog.calls(f)][0]
            org = rules.origin(prog, f, t["args"][0])
            run.ob("descendants", "find_map receiver is self.0", any(o[0] == "arg" and o[1] == 1 and o[2].endswith(".0") for o in org), key="descendants|find_map receiver is not self.0", detail=sorted(map(str, org)))
    for meth, K in (("ancestors", "Ancestors"), ("predecessors", "Predecessors"), ("preceding_siblings", "PrecedingSiblings"), ("following_siblings", "FollowingSiblings"),
                    ("children", "Children"), ("reverse_children", "ReverseChildren"), ("descendants", "Descendants"), ("traverse", "Traverse"), ("reverse_traverse", "ReverseTraverse")):
        f = prog.fns.get("crate::id::NodeId::" + meth)
        if not run.ob("api", "NodeId::%s exists" % meth, f is not None, key="api|NodeId::%s missing" % meth):
            continue
        cs = [(rules.callee_name(t["callee"]), t) for _, t in prog.calls(f)]
        ok = len(cs) == 1 and cs[0][0].startswith("crate::traverse::%s<" % K) and cs[0][0].endswith("::new")
        run.ob("api", "NodeId::%s = %s::new(arena, self)" % (meth, K), ok, key="api|NodeId::%s is not %s::new(arena, self)" % (meth, K), detail=[c[0] for c in cs], nontrivial=("api", meth))
        if ok:
            o0 = rules.origin(prog, f, cs[0][1]["args"][0])
            o1 = rules.origin(prog, f, cs[0][1]["args"][1])
            run.ob("api", "NodeId::%s forwards (arena, self)" % meth, any(o[0] == "arg" and o[1] == 2 for o in o0) and any(o[0] == "arg" and o[1] == 1 for o in o1),
                   key="api|NodeId::%s does not forward (arena, self)" % meth, detail=[sorted(map(str, o0)), sorted(map(str, o1))])
    run.extra["written_argument"] = (
        "With J (C01) and acyclicity (C02): iterating `parent` from n lists n and its ancestors nearest first; `prev ?: parent` lists the predecessors; iterating next/prev "
        "from n lists n and its later/earlier siblings in order; first_child then next lists the children in order, last_child then prev in reverse. next_traverse is the "
        "successor function of the Euler tour of the forest (Start(n) enters n, End(n) leaves it); stopping after End(root) confines the tour to subtree(root) and makes it a "
        "balanced Start/End sequence whose Start edges are the depth-first pre-order (Descendants = its Start payloads). prev_traverse is its inverse (decided: both "
        "compositions return the original edge), so ReverseTraverse, which starts at End(root) and stops after Start(root), is the exact reversal.")
    run.assumptions += ["pre-state satisfies J and J3", "V: the start node is live"]
    return run.finish()
