"""C06 — node ids are never reissued; is_removed(id) stays true forever after removal.

Numeric half (E2, whole i16 range symbolically): with f = as_removed, r = reuseable, g = reuse read from MIR as piecewise-affine functions
  O1  for every live stamp s in [0, MAX]:  f(s) in [MIN, -1]  and no assertion fails
  O2  for every s in [0, MAX] with r(f(s)):  g(f(s)) in [0, MAX]  and  g(f(s)) > s      (strictly increasing generations)
  O3  is_removed decision tables:  NodeStamp: s < 0;  Node: stamp < 0;  NodeId: slot.stamp != id.stamp (true for a stale id of a recycled slot)
Structural half (E1): the only writers of a stamp are Default (Node::new), as_removed (reached only from free_node) and reuse (reached only from
Node::reuse, reached only from new_node); free_node is applied to live slots and Node::reuse to free-list members only (C07).
"""
from vlib import facts, rules, e2props
from vlib.report import Run
from vlib.absint.values import I16_MIN, I16_MAX

STAMP = "crate::id::NodeStamp"


def main(tier):
    run = Run("C06", tier, level="proof")
    run.rule = ("obligation = one piece of the piecewise-affine generation functions (an interval of live stamps) x {O1, O2}, each decision-table row of the "
                "is_removed methods, and each writer/caller inventory fact; the pieces partition [0, i16::MAX] exhaustively; non-trivial = distinct pieces/rows")
    profiles = ["dev", "rel"]
    data = e2props.load(run, profiles, ["stamp"])
    for (prof, entry), recs in sorted(data.items()):
        covered = []
        for rec in recs:
            if "table" in rec:
                t = rec["table"]
                if t == "roles":
                    continue
                if t == "NodeStamp::is_removed":
                    lo, hi = rec["s_range"]
                    want = hi < 0
                    ok = rec["exit"] == "return" and rec["value"] == want and (hi < 0 or lo >= 0)
                    run.ob("O3-tables", "%s(%s) on s in [%d,%d] = %s" % (t, prof, lo, hi, want), ok, key="O3|%s is not `stamp < 0`" % t, detail=rec, nontrivial=(t, want))
                elif t in ("Node::is_removed", "NodeId::is_removed"):
                    want = not rec["live"]
                    ok = rec["exit"] == "return" and rec["value"] == want
                    run.ob("O3-tables", "%s(%s) on a %s slot = %s" % (t, prof, "live" if rec["live"] else "removed", want), ok,
                           key="O3|%s wrong for a %s node" % (t, "live" if rec["live"] else "removed"), detail=rec, nontrivial=(t, want), sample=True)
                elif t == "NodeId::is_removed(stale)":
                    # with id.stamp and slot.stamp unrelated symbols, the result must be exactly `stamps differ`
                    cm = rec.get("cmp", [])
                    ok = rec["exit"] == "return" and len(cm) == 1 and cm[0][0] == "Eq" and (rec["value"] is True or rec["value"] is False)
                    run.ob("O3-tables", "NodeId::is_removed(%s) decides by comparing id.stamp with slot.stamp only" % prof, ok,
                           key="O3|NodeId::is_removed is not `slot.stamp != id.stamp`", detail=rec, nontrivial=(t, rec["value"]))
                continue
            lo, hi = rec["s_range"]
            piece = "s in [%d,%d]" % (lo, hi)
            if rec.get("exit") in ("panic", "undecided") or rec.get("as_removed_exit") != "return":
                run.ob("O1", "%s %s: generation arithmetic does not fail" % (prof, piece), False,
                       key="O1|generation arithmetic fails (%s) for a live stamp" % (rec.get("msg") or rec.get("exit")), detail=rec, nontrivial=piece)
                continue
            rlo, rhi = rec["removed_range"]
            run.ob("O1", "%s %s: as_removed(s) = %s in [%d,%d] within [MIN,-1]" % (prof, piece, rec["removed_term"], rlo, rhi),
                   I16_MIN <= rlo and rhi <= -1, key="O1|as_removed leaves the removed range [MIN,-1]", detail=rec, nontrivial=piece, sample=True)
            covered.append((lo, hi))
            if rec["exit"] == "retired":
                run.ob("O2", "%s %s: slot retired (not reuseable) - allowed by C07" % (prof, piece), True, nontrivial=piece + " retired", sample=True)
                continue
            dlo, dhi = rec["delta_range"]
            qlo, qhi = rec["reused_range"]
            at = "s=MAX" if lo == hi == I16_MAX else piece
            run.ob("O2", "%s %s: reuse(as_removed(s)) = %s in [0,MAX]" % (prof, piece, rec["reused_term"]), 0 <= qlo and qhi <= I16_MAX,
                   key="O2|reused stamp leaves [0,MAX]", detail=rec, nontrivial=piece)
            run.ob("O2", "%s %s: reuse(as_removed(s)) - s in [%d,%d] > 0 (strictly increasing)" % (prof, piece, dlo, dhi), dlo > 0,
                   key="O2|generation not strictly increasing at %s" % at, detail=rec, nontrivial=piece, sample=True)
            run.ob("O2", "%s %s: reuse() returns the stamp it stored" % (prof, piece), rec.get("returned_same") is True,
                   key="O2|reuse returns a stamp different from the stored one", detail=rec)
        # the pieces must cover [0, MAX]
        covered.sort()
        pos = 0
        for lo, hi in covered:
            if lo <= pos:
                pos = max(pos, hi + 1)
        run.ob("coverage", "%s: pieces cover every live stamp 0..=32767" % prof, pos > I16_MAX, key="coverage|live stamps not covered up to %d" % pos, detail=covered)
    # ---- a freshly issued id reads as not removed: it carries the slot's current stamp
    prog_ = facts.load("dev", None)
    own_alloc = rules.APPEND_VALUE in rules.alloc_gates(prog_)
    alloc = e2props.load(run, profiles, ["new_node"] + (["append_alloc"] if own_alloc else []))
    for (prof, entry), recs in sorted(alloc.items()):
        for rec in recs:
            if rec["exit"] == "return" and rec.get("returned") is not None:
                run.ob("issued", "%s/%s: is_removed(new id) is false at issue time (id.stamp == slot.stamp >= 0)" % (entry, prof),
                       rec.get("returned_id_is_current") is True and rec["returned_stamp_range"][0] >= 0,
                       key="issued|new_node hands out an id that already reads as removed", detail={k: rec.get(k) for k in ("value", "returned_stamp_range", "returned_id_is_current", "shape")},
                       nontrivial=("issued", rec.get("shape")))
    # ---- the generation of a freed slot advances from the slot's stamp even when an older id of the slot is used to remove its occupant
    fr = e2props.load(run, profiles, ["free_node"])
    for (prof, entry), recs in sorted(fr.items()):
        ns = 0
        for rec in recs:
            if rec.get("stale_id") and rec["exit"] == "return":
                ns += 1
                run.ob("stale-id", "free_node/%s through an older id: new stamp derived from the slot (%s)" % (prof, rec.get("x_stamp_post")), rec.get("x_stamp_from_slot") is True,
                       key="stale-id|removing a recycled slot's occupant through an older id rewinds the slot's generation", detail={k: rec.get(k) for k in ("case", "x_stamp_post", "x_stamp_range")},
                       nontrivial=("stale", rec.get("x_stamp_post")))
        run.floor("free_node cases through an older id (%s)" % prof, ns, 1)
    # ---- E1: writers and callers
    prog = facts.load("dev", None)
    idx = rules.Index(prog)
    from vlib.absint.e2run import stamp_roles
    roles, why = stamp_roles(prog)
    run.ob("writers", "the stamp helpers are identifiable by role (removal transition, reuse transition, reuseable test, is_removed test)", roles is not None,
           key="writers|%s" % why, nontrivial="roles")
    roles = roles or {}
    run.extra["stamp_roles"] = roles
    FREE, NEW = rules.free_node_key(prog), "crate::arena::Arena<T>::new_node"
    ALLOC = rules.alloc_gates(prog, idx)          # {new_node}, plus append_value when it allocates through a path of its own (C07 then decides that path as well)
    sites = [s for s in rules.field_sites(prog, STAMP, "0") if s["kind"] in ("write", "mutref")]
    fns = sorted({s["fn"] for s in sites if not prog.fns[s["fn"]].get("impl_derived")})
    # a transition produces the new counter value either by writing NodeStamp.0 in place or by building a new NodeStamp (by-value form)
    saggs_all = sorted({a["fn"] for a in rules.aggregates(prog, STAMP) if not prog.fns[a["fn"]].get("impl_derived")})
    producers = sorted(set(fns) | set(saggs_all))
    extra = [f for f in producers if f not in (roles.get("removed"), roles.get("reuse"))]
    run.ob("writers", "the generation counter is produced (NodeStamp.0 written or a NodeStamp built) only in the removal and reuse transitions (%s, %s): %s" % (roles.get("removed"), roles.get("reuse"), producers),
           not extra and len(producers) == 2, key="writers|NodeStamp.0 written in %s" % ",".join(extra), detail=producers, nontrivial="w0", sample=True)
    nsites = [s for s in rules.field_sites(prog, "crate::node::Node", "stamp") if s["kind"] in ("write", "mutref")]
    nf = sorted({s["fn"] for s in nsites if not prog.fns[s["fn"]].get("impl_derived")})
    badn = [f for f in nf if not idx.gated(f, {FREE} | ALLOC)]
    run.ob("writers", "Node.stamp is written/borrowed mutably only below free_node / new_node: %s" % nf, not badn,
           key="writers|Node.stamp written in %s" % ",".join(badn), detail=[(b, idx.ungated_path(b, {FREE} | ALLOC)) for b in badn] or nf, nontrivial="w1")
    aggs = sorted({a["fn"] for a in rules.aggregates(prog, "crate::node::Node") if not prog.fns[a["fn"]].get("impl_derived")})
    bada = [f for f in aggs if not idx.gated(f, ALLOC)]
    run.ob("writers", "Node values are built only below new_node: %s" % aggs, not bada and len(aggs) >= 1, key="writers|Node built outside new_node's helpers: %s" % ",".join(bada), detail=aggs)
    saggs = [a for a in saggs_all if a not in (roles.get("removed"), roles.get("reuse"))]
    run.ob("writers", "NodeStamp values are built only by derived Default/Clone and the two transitions: %s" % saggs_all, not saggs, key="writers|NodeStamp built in %s" % ",".join(saggs), detail=saggs_all)
    for role, gate, other in (("removed", FREE, NEW), ("reuse", NEW, FREE)):
        k = roles.get(role)
        if not k:
            continue
        ok = idx.gated(k, ALLOC if gate == NEW else {gate}) and len(idx.users(k)) > 0
        run.ob("callers", "the %s transition (%s) is reachable only through %s" % (role, k.split("::", 1)[1], gate.split("::", 1)[1]), ok,
               key="callers|%s transition of the stamp reachable outside %s" % (role, gate.rsplit("::", 1)[-1]), detail=idx.ungated_path(k, {gate}), nontrivial=("callers", role))
    callers = sorted({k for (k, bi, t) in idx.callers.get(FREE, [])})
    # free_node expects an unlinked node; every caller must be one of the removal entry points E2 explores together with the call (J5 at their exits shows the
    # freed node was unlinked), or a private helper reachable only through them
    REMOVERS = {"crate::id::NodeId::remove", "crate::id::NodeId::remove_subtree"}
    strayf = [c for c in callers if not idx.gated(c, REMOVERS)]
    run.ob("callers", "free_node is called only below NodeId::remove / NodeId::remove_subtree: %s" % callers, bool(callers) and not strayf,
           key="callers|free_node called from %s" % (",".join(strayf) or "nowhere"), detail=callers, nontrivial=("callers", "free_node"))
    run.floor("stamp write sites found", len(sites) + len(nsites) + len(saggs_all), 4)
    run.extra["written_argument"] = ("Per slot: the first id carries stamp 0 (Default in Node::new). A slot's stamp is changed only by free_node (live s -> f(s) < 0) and by "
                                     "Node::reuse on a free-list member (f(s) -> g(f(s)) > s by O2). So the live stamps of a slot are strictly increasing and removed stamps are "
                                     "negative: no (index, stamp) pair is issued twice between clears, and once an id with stamp s is removed the slot's stamp is either negative or "
                                     "a larger generation, never s again - is_removed(id) (O3: slot.stamp != id.stamp) stays true. A slot whose counter is exhausted is not "
                                     "enqueued (not reuseable) and is retired, which C07 permits.")
    run.assumptions += ["ids of a cleared arena are outside the property's quantifier (since creation or the last clear)"]
    return run.finish()
