"""C01 — links of live nodes always describe a well-formed ordered forest.

E2 proves J0, J1, J2(a-e) inductively: from every pre-state case consistent with J and V, every entry point re-establishes, at every
exit (return or panic), each instance of J that mentions a field the call wrote; untouched instances hold by hypothesis.
"""
from vlib import facts, rules, e2props
from vlib.report import Run

ENTRIES = ["detach", "checked_append", "checked_prepend", "checked_insert_after", "checked_insert_before", "append_value", "new_node", "remove", "remove_subtree"]
J_FOR_C01 = ("J0", "J1", "J2a", "J2b", "J2c", "J2d", "J2e")


def main(tier):
    run = Run("C01", tier, level="proof")
    run.rule = ("case = abstract pre-state consistent with J and V (lazy materialisation, exhaustive); obligation = (case, exit) -> every "
                "instance of J0/J1/J2 mentioning a written field holds in the post-state; non-trivial = distinct (entry, shape) that writes the heap")
    profiles = ["dev"] if tier == "quick" else ["dev", "rel"]
    data = e2props.load(run, profiles, ENTRIES)
    for (prof, entry), recs in sorted(data.items()):
        e2props.undecided(run, recs, prof)
        for rec in recs:
            if rec["exit"] == "undecided":
                continue
            viol = [j for j in rec.get("J", []) if j[0].split("|")[0] in J_FOR_C01]
            ok = not viol
            kinds = sorted({j[0] for j in viol})
            run.ob("J-preserved", "%s/%s: J0-J2 hold at exit %s" % (entry, prof, rec["exit"]), ok,
                   key="%s|%s|%s" % (entry, rec.get("class"), ";".join(kinds)),
                   detail=e2props.detail_of(rec), loc=rec.get("at"), nontrivial=e2props.nontrivial_tag(rec))
            if ok and rec.get("overlay") and len(run.samples) < 5:
                run.sample(e2props.sample_of(rec))
        run.floor("cases explored for %s (%s)" % (entry, prof), len(recs), 3 if entry == "new_node" else 10)
    # constructors establish J: an empty arena has no nodes and an empty free list (decided on the values E2 computes for new/default/with_capacity)
    cdata = e2props.load(run, profiles, ["ctor"])
    for (prof, entry), recs in sorted(cdata.items()):
        for name in ("new", "default", "with_capacity"):
            rs = [r for r in recs if r.get("table") == name]
            ok = bool(rs) and all(r.get("exit") == "return" and all(r.get("fields", {}).get(fn) == ("Vec(len=0)" if fn == "nodes" else "None") for fn in r.get("adt_fields", [])) for r in rs)
            run.ob("constructors", "Arena::%s/%s builds an empty arena (no slots, empty free list)" % (name, prof), ok,
                   key="constructors|crate::arena::Arena<T>::%s is not a plain empty-arena constructor" % name, detail=rs, nontrivial=("ctor", name))
    prog = facts.load("dev", None)
    # every writer of a link field (and of the free-list ends) is reachable only through the operations analysed above: a function that changed links
    # outside them - a new public mutator, a side effect in an accessor - would escape the inductive argument
    idx = rules.Index(prog)
    GATES = {"crate::id::NodeId::" + e for e in ("detach", "checked_append", "checked_prepend", "checked_insert_after", "checked_insert_before", "append_value", "remove", "remove_subtree")} | \
            {"crate::arena::Arena<T>::new_node", "crate::arena::Arena<T>::clear", rules.free_node_key(prog)}
    LINKS = ("parent", "previous_sibling", "next_sibling", "first_child", "last_child")
    wsites = [s_ for s_ in rules.field_sites(prog, "crate::node::Node") if s_["kind"] in ("write", "mutref") and s_["field"] in LINKS] + \
             [s_ for s_ in rules.field_sites(prog, "crate::arena::Arena") if s_["kind"] in ("write", "mutref") and s_["field"] in ("first_free_slot", "last_free_slot")]
    wfns = sorted({s_["fn"] for s_ in wsites if not prog.fns[s_["fn"]].get("impl_derived")})
    stray = [w for w in wfns if not idx.gated(w, GATES)]
    run.ob("writers", "link fields and free-list ends are written only below the analysed operations: %s" % wfns, not stray,
           key="writers|links written outside the analysed operations in %s" % ",".join(stray), detail=[(w, idx.ungated_path(w, GATES)) for w in stray] or wfns, nontrivial="writers", sample=True)
    run.floor("functions writing link fields", len(wfns), 4)
    run.extra["written_argument"] = ("J4 (the nodes naming p as parent are exactly the next-chain first(p)..last(p)) follows from J2 and J3 on a finite "
                                     "arena: by J2b/J2a every sibling chain has one parent; by J2d its head is first(p) and its tail last(p); two distinct "
                                     "chains with parent p would need two heads with prev=None, both equal to first(p) by J2d.")
    run.assumptions += ["A1 (V): ids passed in are valid", "A2: arena built through the API (not deserialised from arbitrary data)",
                        "J3 (acyclicity) is C02's obligation; J5 (removed nodes unlinked) is C12's"]
    return run.finish()
