"""C02 — the forest stays acyclic; every call returns; every iterator is finite.

(i) J3 preserved: every changed parent edge m -> P must lead into a pre-state ancestor chain that contains no re-parented node
    (decided from the `ancestors().any(..)` loop summary, from P = None, or from J itself); sibling order acyclicity follows from the
    model equivalence of C03/C04 (splicing a detached singleton / a whole child chain between adjacent siblings).
(ii) every call returns: no recursion in the call graph; every loop reachable from a public function is executed to a decided exit
    or summarised as a walk along an acyclic link chain; the interpreter's step budget is never exhausted.
"""
from vlib import facts, rules, e2props
from vlib.report import Run
from vlib import controls
from props.C01 import ENTRIES

KNOWN_LOOPS = {
    "crate::debug_pretty_print::prepare_next_node_printing": "drives a Traverse (finite by C09/J3)",
    "<crate::debug_pretty_print::DebugPrettyPrint<'_, T> as core::fmt::Display>::fmt": "drives prepare_next_node_printing",
    "<crate::debug_pretty_print::DebugPrettyPrint<'_, T> as core::fmt::Debug>::fmt": "drives prepare_next_node_printing",
    "crate::debug_pretty_print::IndentWriter<'a, 'b>::write_indent_partial": "for over a slice of the indent stack",
    "crate::debug_pretty_print::IndentWriter<'a, 'b>::complete_partial_indent": "for over 0..pending (usize range)",
    "<crate::debug_pretty_print::IndentWriter<'_, '_> as core::fmt::Write>::write_str": "consumes a non-empty prefix of `s` per iteration",
}


def main(tier):
    run = Run("C02", tier, level="proof")
    run.rule = ("obligation = (case, exit) -> every changed parent edge keeps the forest acyclic; plus call-graph and loop obligations; "
                "non-trivial = distinct (entry, shape) that re-parents a node")
    profiles = ["dev"] if tier == "quick" else ["dev", "rel"]
    data = e2props.load(run, profiles, ENTRIES + ["iters"])
    interpreted = set(run.extra.get("functions_interpreted", []))
    e2_undecided = any(rec.get("exit") == "undecided" for recs in data.values() for rec in recs)
    # the printer's own loops: accounted for when the step analysis of C14 got through them with every step decided (write_str consumes a non-empty fragment of
    # its input per iteration; the dispatch loop takes one edge of a finite traversal per iteration)
    pdata = e2props.load(run, profiles, ["ppstep"])
    pp_ok = all(r.get("exit") != "undecided" for recs in pdata.values() for r in recs) and bool(pdata)
    pp_fns = set(run.extra.get("functions_interpreted", [])) if pp_ok else set()
    run.extra["functions_interpreted"] = sorted(interpreted | pp_fns)
    data = {k: v for k, v in data.items() if k[1] != "iters"}
    for (prof, entry), recs in sorted(data.items()):
        e2props.undecided(run, recs, prof)
        for rec in recs:
            if rec["exit"] == "undecided":
                continue
            j3 = rec.get("J3", []) + [j for j in rec.get("J", []) if j[0].startswith("J3")]
            reparent = any(".parent" in o[0] for o in rec.get("overlay", []))
            kinds = sorted({j[0] for j in j3})
            run.ob("J3-preserved", "%s/%s: no parent cycle at exit %s" % (entry, prof, rec["exit"]), not j3,
                   key="%s|%s|%s" % (entry, rec.get("class"), ";".join(kinds)), detail=e2props.detail_of(rec), loc=rec.get("at"),
                   nontrivial=(entry, rec.get("shape")) if reparent else None)
            if not j3 and reparent and len(run.samples) < 5:
                run.sample(e2props.sample_of(rec))
    # (ii) no recursion anywhere in the crate
    prog = facts.load("dev", None)
    idx = rules.Index(prog)
    sccs = idx.recursion()
    run.ob("termination", "call graph of the crate is acyclic (no recursion)", not sccs, key="termination|recursive functions " + ";".join(s[0] for s in sccs),
           detail=sccs, nontrivial="callgraph", sample=True)
    pub = [k for k, f in prog.fns.items() if f["vis"] == "pub" and "mir" in f and not f.get("impl_derived")]
    reach = idx.reachable(pub)
    loops = []
    for k in sorted(reach):
        if prog.fns[k].get("impl_derived"):
            continue
        for (a, b) in idx.cfg(k).back_edges():
            loops.append((k, b))
    FINITE = ("core::slice::iter::Iter<", "core::slice::iter::IterMut<", "core::ops::range::Range<usize>", "core::ops::range::Range<u", "core::ops::range::RangeInclusive<u",
              "alloc::vec::into_iter::IntoIter<", "core::str::iter::Chars<", "core::str::iter::CharIndices<", "core::str::iter::Lines<", "core::str::iter::SplitInclusive<", "core::str::iter::Split<", "core::str::iter::SplitN<", "core::str::iter::SplitTerminator<", "core::str::iter::Bytes<", "core::option::IntoIter<", "core::array::iter::IntoIter<")
    ADAPT = ("core::iter::adapters::rev::Rev<", "core::iter::adapters::map::Map<", "core::iter::adapters::enumerate::Enumerate<", "core::iter::adapters::take_while::TakeWhile<",
             "core::iter::adapters::skip::Skip<", "core::iter::adapters::take::Take<", "core::iter::adapters::filter::Filter<", "core::iter::adapters::zip::Zip<", "core::iter::adapters::cloned::Cloned<",
             "core::iter::adapters::copied::Copied<", "core::iter::adapters::peekable::Peekable<")

    import re as _re

    def finite_iter(tys):
        t = tys
        while any(t.startswith(a) for a in ADAPT):
            t = t[t.index("<") + 1:]
        if any(t.startswith(f) for f in FINITE):
            return True
        # the crate's own traversal iterators are finite by C09 + J3 (each step moves along an acyclic link chain / the Euler tour of a finite subtree)
        if t.startswith("crate::traverse::") and t.split("<")[0] in LOCAL_ITERS:
            return True
        # an iterator supplied by the caller (a type parameter): the loop ends when the caller's iterator does - the caller's obligation, as for Vec::extend
        if _re.match(r"^(<[A-Z]\w* as core::iter::traits::collect::IntoIterator>::IntoIter|[A-Z]\w*)([,> ]|$)", t):
            return True
        return False

    LOCAL_ITERS = {a.split("<")[0] for (tr, m, a) in () } | {k2.split("<")[1].split("<")[0].split(" as ")[0] for k2 in prog.fns
                                                            if k2.startswith("<crate::traverse::") and k2.endswith(" as core::iter::traits::iterator::Iterator>::next")}

    def driven_by_finite_iterator(k, head):
        """The loop body polls `next()` of a std iterator over a finite collection/range (each poll consumes one element): it terminates."""
        f = prog.fns[k]
        cfg = idx.cfg(k)
        body = {b for b in cfg.reach if cfg.dominates(head, b) and head in cfg.reachable_from(b)}
        for bi, t in prog.calls(f):
            if bi in body and rules.callee_name(t["callee"]).endswith("Iterator>::next") or (bi in body and rules.callee_name(t["callee"]).endswith("::next")):
                targs = [prog.tys(a) for a in (t["callee"].get("args") or []) if isinstance(a, int)]
                name = rules.callee_name(t["callee"])
                m = name[1:name.index(" as ")] if name.startswith("<") and " as " in name else (targs[0] if targs else "")
                if finite_iter(m) or (targs and finite_iter(targs[0])):
                    return True
                # unresolved (generic) callee: the type of the receiver operand
                a0 = t["args"][0] if t.get("args") else None
                if a0 and a0.get("k") in ("copy", "move"):
                    lt = prog.tys(f["mir"]["locals"][a0["place"]["l"]]["ty"])
                    lt = _re.sub(r"^&('\w+ )?(mut )?", "", lt)
                    if finite_iter(lt):
                        return True
        return False

    for (k, head) in loops:
        if driven_by_finite_iterator(k, head):
            run.ob("termination", "loop in %s is driven by a std iterator over a finite collection/range" % k, True, nontrivial=("loop-finite", k))
            continue
        # a loop is accounted for when E2 interpreted its function in every explored case with a decided exit (executed to a decided exit, or replaced by a
        # verified chain-walk summary whose chain is finite by J3; remove_subtree: generic-iteration analysis, C04), or when it belongs to the pretty printer
        by_e2 = (k in interpreted and not e2_undecided) or k in pp_fns
        why = "interpreted by E2 with decided exits in every case" if by_e2 else KNOWN_LOOPS.get(k, "a loop E2 did not reach and that is not listed: its termination argument is missing")
        run.ob("termination", "loop in %s terminates (%s)" % (k, why), by_e2 or k in KNOWN_LOOPS, key="termination|unaccounted loop in " + k,
               detail=why, loc=prog.loc(prog.fns[k]["span"]), nontrivial=("loop", k))
    adaptors = sorted({n for k in reach for (_, _, n) in idx.calls[k] if n.startswith("core::iter::traits::iterator::Iterator::")})
    # vacuity guard: today's tree has 8 natural loops in reachable code; a loop rewritten with an iterator combinator is counted at its driving call instead
    DRIVERS = ("try_for_each", "for_each", "fold", "try_fold", "find", "find_map", "any", "all", "last", "count", "position", "nth", "collect", "extend")
    driven = len([1 for k in reach for (_, _, n) in idx.calls[k] if n.startswith("core::iter::traits::iterator::Iterator::") and n.rsplit("::", 1)[-1] in DRIVERS])
    run.floor("natural loops (and iterator-driving calls) found in reachable code", len(loops) + driven, 8)
    run.extra["iterator_adaptors_used"] = adaptors
    controls.selftest(run, ['recursion'])
    run.extra["written_argument"] = ("Iterators: each next() moves strictly along parent / next_sibling / previous_sibling (C09 step tables) or along the "
                                     "Euler tour of a subtree; J3 makes each walk injective and finite, so each node (edge) is yielded at most once.")
    run.assumptions += ["A1 (V)", "sibling-order acyclicity relies on the model equivalence decided under C03/C04"]
    return run.finish()
