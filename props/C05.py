"""C05 — impossible inserts are rejected atomically; possible ones never fail or panic (dev and release MIR).

E2 explores every checked insert from every pre-state case consistent with J and V and compares the exit with the
specification table (DESIGN 5/C05).  E1 shows each unchecked form is exactly `checked_*` followed by `Result::expect`.
"""
from vlib import facts, rules, e2props
from vlib.report import Run


def main(tier):
    run = Run("C05", tier, level="proof")
    run.rule = ("case = abstract pre-state (aliasing x liveness x materialised neighbourhood x ancestor predicate) consistent with J and V, "
                "enumerated exhaustively by lazy materialisation; obligations per case: exit row, atomicity of refusals, no panic in the "
                "possible row; non-trivial = distinct (entry, shape) whose call changes the heap")
    profiles = ["dev", "rel"]
    # the panicking wrappers are explored in both tiers: the structural wrapper clause below only says that they call the checked form, not what they do with an Err
    entries = list(e2props.CHECKED) + list(e2props.UNCHECKED)
    data = e2props.load(run, profiles, entries)
    for (prof, entry), recs in sorted(data.items()):
        e2props.undecided(run, recs, prof)
        op = e2props.e2run.BINARY[entry]
        unchecked = entry in e2props.UNCHECKED
        rows = set()
        for rec in recs:
            if rec["exit"] == "undecided":
                continue
            cls = rec["class"]
            rows.add(cls)
            nt = e2props.nontrivial_tag(rec)
            exit_ = rec["exit"]
            val = rec.get("value") or ""
            tagp = "%s|%s" % (entry, prof)
            if cls in ("self", "removed", "ancestor"):
                if unchecked:
                    # the panic must be the wrapper's own `expect` on the checked result (top frame = the wrapper), whatever its message says
                    # (the wrapper itself or a diverging helper it calls, after the checked form has returned its Err - not a panic from inside the checked form)
                    frs = rec.get("frames") or []
                    ok = exit_ == "panic" and ("crate::id::NodeId::" + entry) in frs and not any(f_.startswith("crate::id::NodeId::checked_") for f_ in frs)
                    want = "panic (checked form fails)"
                elif cls == "self":
                    want = "Err(%s)" % e2props.e2run.SELF_ERR[op]
                    ok = exit_ == "return" and val == want
                elif cls == "removed":
                    want = "Err(Removed)"
                    ok = exit_ == "return" and val == want
                else:
                    want = "Err(<..Ancestor>)"
                    ok = exit_ == "return" and val.startswith("Err(") and val[4:-1].endswith("Ancestor") and \
                        (op not in ("append", "prepend") or val[4:-1] in e2props.ANC_ERR[op])
                got = "panic %s" % e2props.panic_kind(rec.get("msg")) if exit_ == "panic" else val
                run.ob("exit-table", "%s row %s: exit %s" % (tagp, cls, want), ok,
                       key="%s|row %s|exit is %s, expected %s" % (entry, cls, got, want),
                       detail=e2props.detail_of(rec), loc=rec.get("at"), nontrivial=nt)
                atomic = not rec.get("overlay")
                run.ob("atomic", "%s row %s: arena unchanged at the refusing exit" % (tagp, cls), atomic,
                       key="%s|row %s|arena modified before the refusal (%s)" % (entry, cls, got),
                       detail=e2props.detail_of(rec), loc=rec.get("at"), nontrivial=nt)
            else:
                ok = exit_ == "return" and val == ("()" if unchecked else "Ok(())")
                got = "panic %s" % e2props.panic_kind(rec.get("msg")) if exit_ == "panic" else val
                run.ob("possible", "%s possible request succeeds without panic" % tagp, ok,
                       key="%s|row possible|exit is %s, expected success" % (entry, got),
                       detail=e2props.detail_of(rec), loc=rec.get("at"), nontrivial=nt, sample=False)
                if ok and len(run.samples) < 6 and rec.get("overlay"):
                    run.sample(e2props.sample_of(rec))
        for r in ("self", "removed", "ancestor", "possible"):
            run.ob("coverage", "%s/%s: row %s explored" % (entry, prof, r), r in rows, key="coverage|%s|row %s never reached" % (entry, r))
        run.floor("cases explored for %s (%s)" % (entry, prof), len(recs), 100)
    # E1: unchecked forms are wrappers
    prog = facts.load("dev", None)
    for u in e2props.UNCHECKED:
        f = prog.fns.get("crate::id::NodeId::" + u)
        if not run.ob("wrappers", "NodeId::%s exists" % u, f is not None, key="wrappers|%s missing" % u):
            continue
        names = [rules.callee_name(t["callee"]) for _, t in prog.calls(f)]
        # one call of the checked form and, besides it, only std calls (expect / unwrap / panic formatting): how the Err is turned into a panic is free
        def diverges(n):
            g_ = prog.fns.get(n)
            return g_ is not None and "mir" in g_ and prog.tys(g_["mir"]["locals"][0]["ty"]) == "!"
        ok = names.count("crate::id::NodeId::checked_" + u) == 1 and names[0] == "crate::id::NodeId::checked_" + u and \
            not [n for n in names[1:] if (n.startswith("crate::") or n.startswith("<crate::")) and not diverges(n)]
        stores = [s for _, _, s in prog.stmts(f) if s["k"] == "assign" and any(e["k"] == "deref" for e in s["place"]["p"])]
        run.ob("wrappers", "%s = checked_%s(..) followed only by turning an Err into a panic" % (u, u), ok and not stores,
               key="wrappers|%s is not exactly checked_%s + expect" % (u, u), detail=names, loc=prog.loc(f["span"]), nontrivial=("wrapper", u))
        if ok:
            c0 = [t for _, t in prog.calls(f)][0]
            org = [sorted(map(str, rules.origin(prog, f, a))) for a in c0["args"]]
            same = all(any("'arg', %d" % (i + 1) in o for o in org[i]) for i in range(3))
            run.ob("wrappers", "%s forwards (self, new, arena) unchanged" % u, same, key="wrappers|%s does not forward its arguments" % u, detail=org)
    run.assumptions += ["A1: ids are valid in the sense V (current id of a live slot, or last id of a removed, not recycled slot)",
                        "pre-state satisfies J (inductive hypothesis; preserved per C01/C02/C12)"]
    return run.finish()
