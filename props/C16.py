"""C16 — serde round-trip (feature deser), decided as by-construction conditions on the `deser` configuration.

For each of Arena, Node, NodeData, NodeId, NodeStamp:
  S1  both Serialize and Deserialize impls exist and are compiler-derived (automatically_derived)
  S2  no #[serde(..)] attribute on the type, a variant or a field (no skip/default/rename/with/flatten)
  S3  writer table: the Serialize body emits every field exactly once, in declaration order, under its own name,
      and the value passed originates from `&self.<that field>`
  S4  reader table: visit_seq / visit_map build the ADT from exactly one element per field and never call Default::default
  S5  the field-type closure is {Vec, Option, usize, NonZeroUsize, i16, T}: serde round-trips every value of these
  S6  PartialEq of all five types is derived, so "all fields equal" is what `==` means (shared with C13)
"""
from vlib import facts, rules, typeclosure
from vlib.report import Run

TYPES = ["crate::arena::Arena", "crate::node::Node", "crate::node::NodeData", "crate::id::NodeId", "crate::id::NodeStamp"]


def main(tier):
    run = Run("C16", tier, level="other")
    run.explanation = ("Static by-construction conditions on the derived serde impls (writer/reader field tables agree with the ADT "
                       "definition, no serde attributes, plain field types, derived PartialEq). serde's derive and the data format are "
                       "trusted to round-trip each listed field type; then the copy has every field equal, hence == and behaves identically "
                       "(C13 determinism). No arena is serialised by this check.")
    run.rule = "obligation = one table entry (type x field x {writer, reader}) or one attribute/impl fact; non-trivial = distinct (type, clause)"
    cfgs = [("dev", ["deser"])] if tier == "quick" else [("dev", ["deser"]), ("rel", ["std", "macros", "par_iter", "deser"])]
    for prof, feats in cfgs:
        prog = facts.load(prof, feats)
        run.extra.setdefault("facts", []).append(prog.info)
        impls = prog.impls
        for tp in TYPES:
            short = tp.split("::")[-1]
            adt = prog.adts.get(tp)
            if not run.ob("S0", "ADT %s exists" % tp, adt is not None, key="S0|missing ADT " + tp):
                continue
            # S1
            for tr, tname in (("serde_core::ser::Serialize", "Serialize"), ("serde_core::de::Deserialize<'de>", "Deserialize")):
                ims = [im for im in impls if im.get("trait") and im["trait"].split("::")[-1].startswith(tname)
                       and prog.ty(im["self_ty"]).get("path") == tp]
                run.ob("S1-derived-impls", "%s has a derived %s impl" % (short, tname),
                       len(ims) == 1 and ims[0]["derived"], key="S1|%s: %s impl missing or hand-written" % (short, tname),
                       detail=[(im["trait"], im["derived"]) for im in ims], nontrivial="S1:" + short, loc=prog.loc(adt["span"]))
            # S2
            attrs = [("type", a) for a in adt["attrs"]]
            for v in adt["variants"]:
                attrs += [("variant " + v["name"], a) for a in v["attrs"]]
                for f in v["fields"]:
                    attrs += [("field " + f["name"], a) for a in f["attrs"]]
            serde_attrs = [(w, a[:160]) for (w, a) in attrs if '"serde"' in a or "serde(" in a]
            run.ob("S2-no-serde-attrs", "%s carries no #[serde(..)] attribute" % short, not serde_attrs,
                   key="S2|%s has a serde attribute on %s" % (short, ",".join(w for w, _ in serde_attrs)), detail=serde_attrs,
                   nontrivial="S2:" + short, loc=prog.loc(adt["span"]))
            # S3 writer
            sk = "<%s as serde_core::ser::Serialize>::serialize" % prog_self(prog, tp)
            f = prog.fns.get(sk)
            if run.ob("S3-writer", "Serialize body of %s found" % short, f is not None and "mir" in f, key="S3|no Serialize body for " + short):
                check_writer(run, prog, f, adt, short)
            # S4 reader
            check_reader(run, prog, adt, tp, short)
            # S5 closure
            for v in adt["variants"]:
                for fld in v["fields"]:
                    for (kind, s, path) in typeclosure.closure(prog, fld["ty"]):
                        ok = kind in ("prim", "param")
                        run.ob("S5-plain-fields", "%s.%s stores %s %s" % (short, fld["name"], kind, s), ok,
                               key="S5|%s.%s stores %s %s" % (short, fld["name"], kind, s), nontrivial="S5:" + kind)
            # S6 derived PartialEq
            ims = [im for im in impls if im.get("trait") == "core::cmp::PartialEq" and prog.ty(im["self_ty"]).get("path") == tp]
            run.ob("S6-derived-eq", "%s: PartialEq is derived" % short, len(ims) == 1 and ims[0]["derived"],
                   key="S6|%s: PartialEq missing or hand-written" % short, nontrivial="S6:" + short)
    run.assumptions += ["serde derive semantics; the data format round-trips usize/i16/Option/Vec/enum tags", "T: Serialize + Deserialize round-trips (user's obligation)"]
    return run.finish()


def prog_self(prog, tp):
    adt = prog.adts[tp]
    return tp + ("<" + ", ".join(adt["generics"]) + ">" if adt["generics"] else "")


def check_writer(run, prog, f, adt, short):
    calls = [(bi, t, rules.callee_name(t["callee"])) for bi, t in prog.calls(f)]
    names = [n for _, _, n in calls]
    if adt["kind"] == "struct":
        fields = adt["variants"][0]["fields"]
        if len(fields) == 1 and fields[0]["name"] == "0":
            # newtype struct
            nt = [(bi, t) for bi, t, n in calls if n.endswith("::serialize_newtype_struct")]
            ok = len(nt) == 1 and nt[0][1]["args"][1].get("str") == short
            run.ob("S3-writer", "%s serialised as newtype struct under its own name" % short, ok,
                   key="S3|%s: newtype writer mismatch" % short, detail=names, nontrivial="S3:" + short)
            if nt:
                org = rules.origin(prog, f, nt[0][1]["args"][2])
                run.ob("S3-writer", "%s: value is self.0" % short, any(o[0] == "arg" and o[2].endswith(".0") for o in org),
                       key="S3|%s: newtype value is not self.0" % short, detail=sorted(map(str, org)))
            return
        st = [(bi, t) for bi, t, n in calls if n.endswith("Serializer::serialize_struct")]
        ok = len(st) == 1 and st[0][1]["args"][1].get("str") == short
        run.ob("S3-writer", "%s: serialize_struct(%r, _)" % (short, short), ok,
               key="S3|%s: serialize_struct name mismatch" % short, detail=[t["args"][1].get("str") for _, t in st])
        sf = [(bi, t) for bi, t, n in calls if n.endswith("SerializeStruct::serialize_field")]
        written = [t["args"][1].get("str") for _, t in sf]
        expect = [fl["name"] for fl in fields]
        run.ob("S3-writer", "%s writes fields %s in order, each once" % (short, expect), written == expect,
               key="S3|%s: written fields %s != declared %s" % (short, written, expect), nontrivial="S3:" + short, sample=True)
        skips = [n for n in names if n.endswith("skip_field")]
        run.ob("S3-writer", "%s: no skip_field" % short, not skips, key="S3|%s: skip_field called" % short)
        for (bi, t), name in zip(sf, written):
            org = rules.origin(prog, f, t["args"][2])
            ok = any(o[0] == "arg" and o[1] == 1 and o[2].endswith("." + str(name)) for o in org)
            run.ob("S3-writer", "%s.%s: written value originates from self.%s" % (short, name, name), ok,
                   key="S3|%s.%s: written value is not self.%s" % (short, name, name), detail=sorted(map(str, org)), nontrivial="S3o:" + short)
    else:
        # enum: one serialize_*_variant per variant with the variant's own name and index
        vs = adt["variants"]
        sv = [(bi, t, n) for bi, t, n in calls if "_variant" in n and "serialize" in n]
        got = sorted((t["args"][2].get("v"), t["args"][3].get("str")) for _, t, _ in sv)
        exp = sorted((i, v["name"]) for i, v in enumerate(vs))
        run.ob("S3-writer", "%s writes variants %s" % (short, exp), got == exp, key="S3|%s: variants written %s != declared %s" % (short, got, exp),
               nontrivial="S3:" + short, sample=True)


def check_reader(run, prog, adt, tp, short):
    nfields = {v["name"]: len(v["fields"]) for v in adt["variants"]}
    # every visit_seq / visit_map / visit_enum / visit_newtype_struct of a visitor defined inside this type's Deserialize impl
    import re as _re
    vis = [f for k, f in prog.fns.items() if _re.match(r"^<crate(::\w+)*::_::", k) and "mir" in f and
           any(k.endswith(s) for s in ("::visit_seq", "::visit_map", "::visit_enum", "::visit_newtype_struct"))]
    mine = []
    ctor_refs = {}
    for f in vis:
        aggs = [s for _, _, s in prog.stmts(f) if s["k"] == "assign" and s["rv"]["k"] == "aggregate" and s["rv"].get("adt") == tp]
        ctors = [a["fn"]["path"] for _, t in prog.calls(f) for a in t["args"] if a.get("k") == "const" and "fn" in a
                 and a["fn"].get("path", "").startswith(tp + "::")]
        if aggs or ctors:
            mine.append((f, aggs))
        for c in ctors:
            ctor_refs[c.split("::")[-1]] = ctor_refs.get(c.split("::")[-1], 0) + 1
    if adt["kind"] == "enum":
        exp = sorted(v["name"] for v in adt["variants"])
        run.ob("S4-reader", "%s: visit_enum constructs every variant %s exactly once" % (short, exp),
               sorted(ctor_refs) == exp and all(n == 1 for n in ctor_refs.values()),
               key="S4|%s: reader constructs variants %s, declared %s" % (short, sorted(ctor_refs.items()), exp), nontrivial="S4:" + short, sample=True)
    run.ob("S4-reader", "%s: reader bodies constructing the type found" % short, bool(mine), key="S4|%s: no reader body builds the type" % short)
    for f, aggs in mine:
        names = [rules.callee_name(t["callee"]) for _, t in prog.calls(f)]
        dflt = [n for n in names if "Default" in n or "default" in n.split("::")[-1]]
        run.ob("S4-reader", "%s %s: no Default::default (no skipped/defaulted field)" % (short, f["key"].split("::")[-1]), not dflt,
               key="S4|%s: reader %s uses a default value" % (short, f["key"].split("::")[-1]), detail=dflt, nontrivial="S4d:" + short)
        for s in aggs:
            v = s["rv"]["variant"]
            n = len(s["rv"]["ops"])
            run.ob("S4-reader", "%s::%s built from %d operands (all fields)" % (short, v, n), n == nfields.get(v),
                   key="S4|%s: reader builds %s from %d of %s fields" % (short, v, n, nfields.get(v)), nontrivial="S4:" + short)
            consts = [o for o in s["rv"]["ops"] if o.get("k") == "const"]
            run.ob("S4-reader", "%s::%s: no field is a constant" % (short, v), not consts,
                   key="S4|%s: reader fills a field of %s with a constant" % (short, v), detail=consts)
        kind = f["key"].split("::")[-1]
        if adt["kind"] == "struct" and kind in ("visit_seq", "visit_map"):
            want = nfields[adt["variants"][0]["name"]]
            if kind == "visit_seq":
                got = sum(1 for n in names if n.endswith("SeqAccess::next_element"))
                run.ob("S4-reader", "%s %s reads %d elements" % (short, kind, want), got == want,
                       key="S4|%s: %s reads %d elements for %d fields" % (short, kind, got, want), nontrivial="S4n:" + short, sample=True)
            else:
                # every field is mandatory: its absence is an error naming that field
                miss = sorted(t["args"][0].get("str") for _, t in prog.calls(f) if rules.callee_name(t["callee"]).endswith("missing_field"))
                exp = sorted(fl["name"] for fl in adt["variants"][0]["fields"])
                run.ob("S4-reader", "%s visit_map: every field is required (missing_field for %s)" % (short, exp), miss == exp,
                       key="S4|%s: visit_map requires %s, declared %s" % (short, miss, exp), nontrivial="S4m:" + short)
