"""C07 — allocation recycles removed slots and never hands out an occupied one.

E2 (free-list model, J1/J6/J7): for free_node, new_node (= pop_front_free_node + Node::reuse | push) and clear, in every case of the materialised
free-list shape (empty / singleton / longer; freed slot reuseable or exhausted), the post-state equals the FIFO model:
  free_node(x):  x live -> stamp in [MIN,-1], payload dropped once, data = NextFree(None); if reuseable: appended at the tail (old tail's link := x,
                 last := x, first := x if the list was empty) else list unchanged; nothing else written; len unchanged
  new_node(v):   list non-empty -> returns the head (a removed, reuseable member), first := head.next, last := None iff that is None, len unchanged,
                 stamp -> live, no links, payload stored; list empty -> pushes (len+1), stamp 0, list unchanged
  clear():       first = last = None, len = 0
E1: the only length-changing Vec calls on Vec<Node<T>> are that push and that clear.
"""
from vlib import facts, rules, e2props
from vlib.report import Run
from vlib.absint.values import I16_MIN, I16_MAX

LEN_CHANGING = ("push", "pop", "insert", "remove", "swap_remove", "truncate", "clear", "drain", "retain", "retain_mut", "dedup", "dedup_by", "dedup_by_key",
                "split_off", "append", "resize", "resize_with", "extend", "extend_from_slice", "splice", "set_len", "extend_from_within", "push_within_capacity")


def main(tier):
    run = Run("C07", tier, level="proof")
    run.rule = ("case = materialised free-list shape x stamp piece; obligations = each clause of the FIFO model for that case; non-trivial = distinct shapes")
    profiles = ["dev", "rel"]
    prog0 = facts.load("dev", None)
    idx0 = rules.Index(prog0)
    ALLOC = rules.alloc_gates(prog0, idx0)
    own_alloc = rules.APPEND_VALUE in ALLOC       # append_value allocates through a path of its own: its allocation is decided like new_node's
    data = e2props.load(run, profiles, ["free_node", "new_node", "clear"] + (["append_alloc"] if own_alloc else []))
    for (prof, entry), recs in sorted(data.items()):
        e2props.undecided(run, recs, prof)
        kinds = set()
        for rec in recs:
            if rec["exit"] == "undecided":
                continue
            nt = (entry, rec.get("shape"), tuple(rec.get("x_stamp_range") or ()))
            d = e2props.detail_of(rec)
            d.update({k: rec.get(k) for k in ("fl_pre", "fl_post", "fl_pre_next", "fl_post_next", "len", "x_stamp_range", "returned", "data_writes", "drops", "events")})
            if not run.ob(entry, "%s/%s returns" % (entry, prof), rec["exit"] == "return", key="%s|does not return: %s" % (entry, e2props.panic_kind(rec.get("msg"))), detail=d, nontrivial=nt):
                continue
            pre, post, pn, qn = rec["fl_pre"], rec["fl_post"], rec["fl_pre_next"], rec["fl_post_next"]
            jbad = sorted({j[0] for j in rec.get("J", [])})
            run.ob(entry, "%s/%s: J1 (stamp sign <-> payload) and link instances hold" % (entry, prof), not jbad, key="%s|%s" % (entry, ";".join(jbad)), detail=d, nontrivial=nt)
            if entry == "free_node":
                x = rec["x"]
                lo, hi = rec["x_stamp_range"]
                run.ob(entry, "free_node/%s: freed slot's stamp in [MIN,-1]" % prof, I16_MIN <= lo and hi <= -1, key="free_node|freed slot keeps a non-negative stamp", detail=d, nontrivial=nt)
                run.ob(entry, "free_node/%s: payload of x dropped exactly once, x.data = NextFree(None)" % prof,
                       [dr for dr in rec["drops"] if dr[1]] == [[x, True]] and qn.get(x, "missing") is None,
                       key="free_node|payload not dropped exactly once / free-list link of the freed slot not None", detail=d, nontrivial=nt)
                run.ob(entry, "free_node/%s: the removed generation is derived from the slot's own stamp (not from the id used to address it)" % prof, rec.get("x_stamp_from_slot") is True,
                       key="free_node|removed stamp is computed from the id argument, not from the slot", detail=d, nontrivial=nt + (bool(rec.get("stale_id")),))
                run.ob(entry, "free_node/%s: no link field and no other node's stamp written" % prof, not rec["other_writes"], key="free_node|writes beyond stamp/data/free list", detail=d)
                run.ob(entry, "free_node/%s: len unchanged" % prof, rec["len"][0] == rec["len"][1], key="free_node|changes the number of slots", detail=d)
                exhausted = (lo == hi == I16_MIN)
                if exhausted:
                    kinds.add("exhausted")
                    ok = post["first"] in ("unk", pre["first"]) and post["last"] in ("unk", pre["last"]) and set(qn) == {x}
                    run.ob(entry, "free_node/%s: exhausted slot is retired (list unchanged)" % prof, ok, key="free_node|exhausted slot enqueued", detail=d, nontrivial=nt, sample=True)
                else:
                    run.ob(entry, "free_node/%s: reuseable stamp (> MIN)" % prof, lo > I16_MIN, key="free_node|stamp piece mixes exhausted and reuseable", detail=d)
                    if pre["last"] is None:
                        kinds.add("empty")
                        ok = post["first"] == x and post["last"] == x and pre["first"] in (None, "unk") and set(qn) == {x}
                        run.ob(entry, "free_node/%s: empty list -> first = last = x" % prof, ok, key="free_node|enqueue on an empty list is not first=last=x", detail=d, nontrivial=nt, sample=True)
                    else:
                        kinds.add("append")
                        k = pre["last"]
                        ok = post["last"] == x and qn.get(k) == x and post["first"] in ("unk", pre["first"]) and set(qn) == {x, k}
                        run.ob(entry, "free_node/%s: non-empty list -> old tail links to x, last = x, head unchanged" % prof, ok,
                               key="free_node|enqueue does not append at the tail", detail=d, nontrivial=nt, sample=True)
            elif entry in ("new_node", "append_alloc"):
                kinds |= e2props.alloc_obligations(run, entry, prof, rec, d, nt)
            elif entry == "clear":
                kinds.add("clear")
                ok = post["first"] is None and post["last"] is None and rec["len"][1] == "0" and rec["events"] == ["clear"]
                run.ob(entry, "clear/%s: first = last = None, no slots" % prof, ok, key="clear|does not reset the free list and the slot vector", detail=d, nontrivial=nt, sample=True)
        want = {"free_node": {"empty", "append", "exhausted"}, "new_node": {"push", "pop"}, "append_alloc": {"push", "pop"}, "clear": {"clear"}}[entry]
        run.ob("coverage", "%s/%s: cases %s explored" % (entry, prof, sorted(want)), want <= kinds, key="coverage|%s: case(s) %s never reached" % (entry, sorted(want - kinds)))
    # E1: length-changing calls on the node vector
    prog = facts.load("dev", None)
    idx = rules.Index(prog)
    found = []
    for k, cs in idx.calls.items():
        for bi, t, n in cs:
            if n.startswith("alloc::vec::Vec::<T, A>::") and n.rsplit("::", 1)[-1] in LEN_CHANGING:
                targs = [prog.tys(a) for a in t["callee"].get("args", []) if isinstance(a, int)]
                if targs and targs[0].startswith("crate::node::Node<"):
                    found.append((k, n.rsplit("::", 1)[-1]))
    # the slot vector grows only below new_node (push) and is emptied only below clear: the functions E2 analyses (helpers reachable only through them are covered)
    CLEAR = "crate::arena::Arena<T>::clear"
    bad = [(k, m) for (k, m) in found if not ((m == "push" and idx.gated(k, ALLOC)) or (m == "clear" and idx.gated(k, {CLEAR})))]
    kinds_found = {m for _, m in found}
    run.ob("vec-length", "length-changing calls on Vec<Node<T>> are a push below %s and a clear below clear(): %s" % ("/".join(sorted(g.rsplit("::", 1)[-1] for g in ALLOC)), sorted(found)), not bad and kinds_found == {"push", "clear"},
           key="vec-length|unexpected length-changing call on the slot vector: %s" % (sorted(bad) or sorted(kinds_found)), detail=found, nontrivial="veclen", sample=True)
    run.extra["written_argument"] = ("J6 (the NextFree chain from first is a simple path ending at last covering exactly the removed, reuseable slots) is preserved because the only "
                                     "list updates are 'append a non-member (x was live) at the tail' and 'remove the head'; each removal calls free_node exactly once (C04) and each "
                                     "recycling pops exactly one member, so no slot is lost or handed out twice; exhausted slots are retired.")
    run.assumptions += ["pre-state satisfies J6/J7; V"]
    return run.finish()
