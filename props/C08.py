"""C08 — a live node keeps its id and payload; each payload is dropped exactly once.

(a) no relocation: no moving/removing Vec or slice method, and no mem::swap/replace/take, is ever applied to Node<T> slots
(b) payload writers: Node.data is written only in Node::reuse and Arena::free_node (and built in Node::new); E2 classifies every dynamic write: the freed node itself (payload
    dropped exactly once), the free-list link of the old tail (a removed slot), the recycled slot (a removed free-list member); Node::get/get_mut return the payload of `self`
(c) exactly-once drop: no unsafe (C18) and no mem::forget / ManuallyDrop / Box::leak / Vec::set_len: Rust's ownership then drops each payload exactly once
(d) every other entry point leaves data and stamp of all nodes untouched (E2 frame: write events per record)
"""
from vlib import facts, rules, e2props
from vlib.report import Run
from vlib import controls

RELOCATING = ("swap", "swap_remove", "remove", "insert", "retain", "retain_mut", "drain", "truncate", "pop", "dedup", "dedup_by", "dedup_by_key", "sort", "sort_by", "sort_by_key",
              "sort_unstable", "sort_unstable_by", "sort_unstable_by_key", "reverse", "rotate_left", "rotate_right", "split_off", "append", "resize", "resize_with", "extend_from_slice",
              "splice", "fill", "fill_with", "swap_with_slice", "copy_from_slice", "clone_from_slice", "copy_within", "select_nth_unstable", "set_len", "extend_from_within")
LEAKS = ("core::mem::forget", "core::mem::manually_drop::ManuallyDrop", "alloc::boxed::Box::<T>::leak", "alloc::boxed::Box::<T, A>::leak", "::set_len", "core::ptr::write", "core::ptr::read",
         "core::mem::transmute", "core::mem::zeroed", "core::mem::MaybeUninit", "alloc::vec::Vec::<T, A>::into_raw_parts", "alloc::vec::Vec::<T, A>::leak")
# payload and stamp of a slot may change only below these two entry points, whose every dynamic write E2 classifies (helpers they call, under whatever private
# name, are covered by the call-graph gating rule: every way of reaching the helper goes through a gate)
GATES = {"crate::arena::Arena<T>::free_node", "crate::arena::Arena<T>::new_node"}      # the first is replaced by rules.free_node_key(prog) in main()
E2_ENTRIES = ["detach", "checked_append", "checked_prepend", "checked_insert_after", "checked_insert_before", "append_value", "new_node", "remove", "remove_subtree", "free_node", "clear"]


def main(tier):
    run = Run("C08", tier, level="proof")
    run.rule = ("obligations: one per call site / write site of the inventories, one per E2 record (writes to data/stamp and payload drops are classified); non-trivial = distinct facts")
    prog = facts.load("dev", None)
    idx = rules.Index(prog)
    global GATES
    GATES = {rules.free_node_key(prog)} | rules.alloc_gates(prog)      # append_value joins when it allocates through a path of its own (decided by C07's append_alloc table)
    # (a) relocation
    nsites = 0
    for k, cs in idx.calls.items():
        for bi, t, n in cs:
            if t["callee"].get("local"):
                continue
            targs = [prog.tys(a) for a in (t["callee"].get("args") or []) if isinstance(a, int)]
            onnode = any(a.startswith("crate::node::Node<") or a.startswith("[crate::node::Node<") or "Vec<crate::node::Node<" in a for a in targs)
            if not onnode:
                continue
            nsites += 1
            last = n.rsplit("::", 1)[-1]
            bad = (("vec::Vec" in n or "slice::" in n) and last in RELOCATING) or n in ("core::mem::swap", "core::mem::replace", "core::mem::take")
            run.ob("no-relocation", "%s: %s on node slots does not move a node" % (k, n), not bad, key="no-relocation|%s applied to node slots in %s" % (n, k),
                   loc=prog.loc(t.get("span")), nontrivial=("site", n))
    run.floor("std calls on node slots inspected", nsites, 15)
    # (b) writers of Node.data
    sites = [s for s in rules.field_sites(prog, "crate::node::Node", "data") if s["kind"] in ("write", "mutref") and not prog.fns[s["fn"]].get("impl_derived")]
    wf = sorted({s["fn"] for s in sites})
    bad = [f for f in wf if f != "crate::node::Node<T>::get_mut" and not idx.gated(f, GATES)]
    run.ob("payload-writers", "Node.data is written/mutably borrowed only in Node::get_mut and in functions reachable only through free_node / new_node: found %s" % wf, not bad,
           key="payload-writers|Node.data written in %s" % ",".join(bad), detail=[(s["fn"], prog.loc(s["span"]), s["kind"]) for s in sites] + [("path", idx.ungated_path(b, GATES)) for b in bad],
           nontrivial="writers", sample=True)
    run.floor("Node.data write sites", len([s for s in sites if s["kind"] == "write"]), 3)
    # structural code never touches data
    for mod in ("crate::relations::", "crate::siblings_range::"):
        touch = [s for s in rules.field_sites(prog, "crate::node::Node", "data") if s["fn"].startswith(mod)]
        run.ob("payload-writers", "%s* never reads or writes Node.data" % mod, not touch, key="payload-writers|%s touches Node.data" % mod, detail=[(s["fn"], s["kind"]) for s in touch], nontrivial=("mod", mod))
    # (c) leaks
    leaks = idx.ext_callers(lambda n: any(l in n for l in LEAKS))
    run.ob("exactly-once", "no forget/ManuallyDrop/leak/set_len/raw read-write anywhere in the crate", not leaks,
           key="exactly-once|%s" % ",".join(sorted({l[3] for l in leaks})), detail=[(l[0], l[3]) for l in leaks], nontrivial="leaks", sample=True)
    run.ob("exactly-once", "crate has no user-written unsafe (see C18)", not prog.j["unsafe_sites"] and not any(f.get("unsafe") for f in prog.j["fns"]),
           key="exactly-once|unsafe code present", nontrivial="unsafe")
    # (d) + dynamic classification from E2
    profiles = ["dev"] if tier == "quick" else ["dev", "rel"]
    data = e2props.load(run, profiles, E2_ENTRIES + ["ctor"])
    for (prof, entry), recs in sorted(data.items()):
        if entry == "ctor":
            for rec in recs:
                if rec["table"].startswith("Node::get"):
                    ok = rec["exit"] == "return" and rec["result"] == [rec["node"], ["data", "Data", "0"]] and rec["writes"] == 0
                    run.ob("accessors", "%s/%s returns the payload of the same node and writes nothing" % (rec["table"], prof), ok,
                           key="accessors|%s does not return the addressed node's own payload" % rec["table"], detail=rec, nontrivial=("acc", rec["table"]), sample=True)
            continue
        e2props.undecided(run, recs, prof)
        for rec in recs:
            if rec["exit"] == "undecided":
                continue
            pw = rec.get("payload_writes", [])
            # data and stamp are written in free_node / new_node or in helpers reachable only through them (C06 decides what the stamp helpers compute)
            badw = [w for w in pw if not (w[2] and w[2] in prog.fns and idx.gated(w[2], GATES))]
            run.ob("frame", "%s/%s: data/stamp written only inside free_node / Node::reuse" % (entry, prof), not badw,
                   key="frame|%s writes data/stamp of a node in %s" % (entry, ",".join(sorted({w[2] or "?" for w in badw}))), detail=e2props.detail_of(rec), nontrivial=(entry, "frame", bool(pw)))
            drops = [d for d in rec.get("payload_drops", []) if d[1]]
            freed = rec.get("freed")
            if freed is None and rec.get("x_stamp_range") and rec.get("x"):
                freed = [rec["x"]] if rec["x_stamp_range"][1] < 0 else []
            if entry in ("remove", "remove_subtree", "free_node") and freed is not None:
                ok = sorted(d[0] for d in drops) == sorted(freed)
                run.ob("drops", "%s/%s: payloads dropped = nodes removed (%s), each once" % (entry, prof, freed), ok,
                       key="drops|%s drops payloads %s but removes %s" % (entry, "more than" if len(drops) > len(freed or []) else "other than/less than", "them"),
                       detail=e2props.detail_of(rec), nontrivial=(entry, "drop", len(drops)))
            elif entry == "clear":
                pass        # Vec::clear drops every element exactly once (trusted std)
            elif entry in ("new_node", "append_value"):
                run.ob("drops", "%s/%s drops no payload" % (entry, prof), not drops, key="drops|%s drops a live payload" % entry, detail=e2props.detail_of(rec), nontrivial=(entry, "nodrop"))
                # premise of free_node's classification "the old tail is a removed slot": an allocation must not leave the slot it hands out (now live) as an end
                # of the free list - the next free_node of *another* node would write its `next` link over that live payload (seed C08-h1)
                post, k = rec.get("fl_post"), rec.get("returned")
                if entry == "new_node" and rec["exit"] == "return" and post is not None and k is not None:
                    ok = post["first"] != k and post["last"] != k and not (post["first"] is None and post["last"] is not None)
                    run.ob("tail-premise", "new_node/%s: afterwards the free list's ends do not name the (now live) slot handed out, and the tail is None when the list is empty" % prof, ok,
                           key="tail-premise|new_node leaves a stale end of the free list naming a live slot", detail=e2props.detail_of(rec), nontrivial=("new_node", "tail", rec.get("shape")))
            else:
                run.ob("drops", "%s/%s drops no payload" % (entry, prof), not drops, key="drops|%s drops a live payload" % entry, detail=e2props.detail_of(rec), nontrivial=(entry, "nodrop"))
    controls.selftest(run, ['relocating Vec call', 'leak primitive', 'unsafe block'])
    run.extra["written_argument"] = ("A node's slot index never changes (no relocation) and its stamp changes only when it is removed (C06), so the id returned at creation addresses it until its own "
                                     "removal; its payload is written only at creation/recycling of that slot and dropped only by free_node of that node (or with the Vec on clear/drop).")
    run.assumptions += ["A3: payload destructors do not panic", "A4: callers do not exchange whole Node values through iter_mut/get_mut with mem::swap",
                        "Vec::clear / Vec drop destroy each element exactly once (trusted std)"]
    return run.finish()
