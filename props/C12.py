"""C12 — a removed node is out of every tree and can never be attached again.

(a) J5 at every exit: a node removed by the call (or removed before) has all five links None
(b) J0: no live node names a removed id (shared with C01)
(c) refusal: every insert with a removed id is refused (Err(Removed) / panic) with an unchanged arena
(d) recycling: the node returned by new_node / append_value starts with no links
"""
from vlib import facts, rules, e2props
from vlib.report import Run

ENTRIES = ["checked_append", "checked_prepend", "checked_insert_after", "checked_insert_before", "append_value", "new_node", "remove", "remove_subtree"]


def main(tier):
    run = Run("C12", tier, level="proof")
    run.rule = ("obligations: (case with a removed id) -> refusal with empty overlay; (any case, exit) -> J5/J0 on written fields; "
                "(allocation case) -> returned node has no links; non-trivial = distinct (entry, shape)")
    profiles = ["dev", "rel"]
    entries = ENTRIES + (list(e2props.UNCHECKED) if tier == "thorough" else [])
    data = e2props.load(run, profiles, entries)
    for (prof, entry), recs in sorted(data.items()):
        e2props.undecided(run, recs, prof)
        nrem = 0
        for rec in recs:
            if rec["exit"] == "undecided":
                continue
            nt = (entry, rec.get("shape"), rec.get("case"))
            j = [x for x in rec.get("J", []) if x[0].split("|")[0] in ("J5", "J0")]
            kinds = sorted({x[0] for x in j})
            run.ob("J5-J0", "%s/%s: removed nodes unlinked and unreferenced at exit" % (entry, prof), not j,
                   key="%s|%s|%s" % (entry, rec.get("class"), ";".join(kinds)), detail=e2props.detail_of(rec), loc=rec.get("at"), nontrivial=nt)
            if rec.get("class") == "removed":
                nrem += 1
                checked = entry.startswith("checked_")
                if checked:
                    ok = rec["exit"] == "return" and rec.get("value") == "Err(Removed)"
                    want = "Err(Removed)"
                else:
                    ok = rec["exit"] == "panic"
                    want = "a panic"
                got = "panic %s" % e2props.panic_kind(rec.get("msg")) if rec["exit"] == "panic" else (rec.get("value") or "").split("{")[0]
                run.ob("refusal", "%s/%s [%s]: refused with %s" % (entry, prof, rec.get("case"), want), ok,
                       key="%s|removed id not refused: exit %s, expected %s" % (entry, got, want), detail=e2props.detail_of(rec), loc=rec.get("at"), nontrivial=nt)
                run.ob("refusal-atomic", "%s/%s [%s]: arena unchanged by the refused call" % (entry, prof, rec.get("case")), not rec.get("overlay"),
                       key="%s|arena modified by a call on a removed id (exit %s)" % (entry, got), detail=e2props.detail_of(rec), loc=rec.get("at"), nontrivial=nt)
            if entry in ("new_node", "append_value") and rec["exit"] == "return" and rec.get("class") == "possible":
                if entry == "new_node":
                    ret = rec.get("returned_links")
                    run.ob("recycled-clean", "new_node/%s: returned node has no links" % prof, ret == [None] * 5,
                           key="new_node|returned node carries links %s" % (ret,), detail=e2props.detail_of(rec), nontrivial=nt)
                else:
                    run.ob("recycled-clean", "append_value/%s: returned node is linked only as last child of x" % prof, rec.get("model_diff") == [],
                           key="append_value|returned node's links differ from the model", detail=e2props.detail_of(rec), nontrivial=nt)
        if entry in e2props.CHECKED or entry in e2props.UNCHECKED:
            run.floor("cases with a removed id for %s (%s)" % (entry, prof), nrem, 3)
        if entry == "append_value":
            run.floor("cases with a removed parent for append_value (%s)" % prof, nrem, 1)
    run.assumptions += ["A1 (V): a removed id is the last id issued for a slot that has not been recycled", "pre-state satisfies J (J5 included)"]
    return run.finish()
