"""C13 — arenas are plain values: deterministic, cloneable, and clear() means fresh.

Deterministic: purity scan over every MIR body (no static/thread-local, no callee under a deny-list of ambient state, the only pointer->integer casts are the two of
get_node_id whose values flow only into their difference) + C18 (no interior mutability): every result is a function of the arguments and the arena's fields.
Clone/Eq: derived for Arena, Node, NodeData, NodeId, NodeStamp; state-type closure is plain owned data -> a clone is equal and shares nothing.
clear == new: E2 evaluates new/default/with_capacity(n)/clear (from an arbitrary J-state) and compares *every field of the Arena ADT*; capacity is the one permitted
difference and is read only in Arena::capacity.  with_capacity/reserve are the Vec call on `nodes` and write nothing else.
"""
from vlib import facts, rules, typeclosure, e2props
from vlib.report import Run
from vlib import controls

AMBIENT = ("std::time", "core::time::Instant", "std::env", "std::thread", "std::process", "std::fs", "std::net", "std::io::stdin", "RandomState", "std::collections::hash",
           "hashbrown", "rand::", "rand_core", "getrandom", "std::sync::atomic", "core::sync::atomic", "std::sync::Mutex", "std::sync::RwLock", "thread_local", "std::sys", "core::hint::black_box",
           "core::ptr::read_volatile", "core::arch")
TYPES = ["crate::arena::Arena", "crate::node::Node", "crate::node::NodeData", "crate::id::NodeId", "crate::id::NodeStamp"]


def main(tier):
    run = Run("C13", tier, level="proof")
    run.rule = ("obligations: one per MIR body (purity), per state type x {Clone, PartialEq derived, plain closure}, per Arena field x {new, default, with_capacity, clear}; "
                "non-trivial = distinct facts")
    prog = facts.load("dev", None)
    idx = rules.Index(prog)
    # ---- determinism
    nb = 0
    for f in prog.bodies():
        nb += 1
        bad = sorted({n for (_, _, n) in idx.calls[f["key"]] if any(a in n for a in AMBIENT)})
        run.ob("pure", "%s calls no ambient-state function" % f["key"], not bad, key="pure|%s reads ambient state via %s" % (f["key"], ",".join(bad)), detail=bad,
               loc=prog.loc(f["span"]), nontrivial="pure")
    run.floor("MIR bodies scanned for ambient state", nb, 200)
    run.ob("pure", "no statics in the crate", not prog.j["statics"], key="pure|static item(s) " + ",".join(s["path"] for s in prog.j["statics"]), nontrivial="statics", sample=True)
    casts = []
    for f in prog.bodies():
        for bi, si, s in prog.stmts(f):
            if s["k"] == "assign" and s["rv"]["k"] == "cast" and ("Expose" in s["rv"]["ck"] or s["rv"]["ck"] in ("Transmute",)):
                if f.get("impl_derived"):
                    continue
                casts.append((f["key"], s["rv"]["ck"], s["place"]["l"], bi))
    fns = sorted({c[0] for c in casts})
    GNI = "crate::arena::Arena<T>::get_node_id"
    cidx = rules.Index(prog)
    stray = [k for k in fns if not cidx.gated(k, {GNI})]
    run.ob("pure", "pointer->integer casts occur only in Arena::get_node_id (or private helpers reachable only through it): %s" % fns, not stray,
           key="pure|address observed in %s" % ",".join(stray), detail=casts, nontrivial="casts", sample=True)
    for gk in fns:
        g = prog.fns.get(gk)
        if g is None or gk in stray:
            continue
        ls = {c[2] for c in casts if c[0] == gk}
        ncast = len(ls)
        # plain copies of an address into another local carry the address along
        grown = True
        while grown:
            grown = False
            for bi, si, s in prog.stmts(g):
                if s["k"] == "assign" and s["rv"]["k"] == "use" and s["rv"]["op"].get("k") in ("copy", "move") and s["rv"]["op"]["place"]["l"] in ls \
                        and not s["rv"]["op"]["place"]["p"] and not s["place"]["p"] and s["place"]["l"] not in ls:
                    ls.add(s["place"]["l"])
                    grown = True
        uses = []
        for bi, si, s in prog.stmts(g):
            if s["k"] == "assign":
                if s["rv"]["k"] == "use" and not s["place"]["p"] and s["place"]["l"] in ls:
                    continue
                for o in rules._rv_operands(s["rv"]):
                    if o.get("k") in ("copy", "move") and o["place"]["l"] in ls and not o["place"]["p"]:
                        uses.append((s["rv"]["k"], s["rv"].get("op")))
        for bi, t in prog.terms(g):
            ops = t.get("args", []) + t.get("ops", []) + ([t["discr"]] if t["k"] == "switch" else [])
            for o in ops:
                if o.get("k") in ("copy", "move") and o["place"]["l"] in ls and not o["place"]["p"]:
                    uses.append((t["k"], rules.callee_name(t["callee"]) if t["k"] == "call" else t.get("msg")))
        SUBS = ("core::num::<impl usize>::checked_sub", "core::num::<impl usize>::wrapping_sub", "core::num::<impl usize>::saturating_sub", "core::num::<impl usize>::overflowing_sub")
        ok = all(u in (("binop", "SubWithOverflow"), ("binop", "Sub"), ("assert", "Overflow(Sub)")) or (u[0] == "call" and u[1] in SUBS) for u in uses) and ncast == 2
        run.ob("pure", "the two addresses in %s flow only into their difference" % gk.rsplit("::", 1)[-1], ok, key="pure|an address in get_node_id is used other than in `p - start`", detail=uses, nontrivial="addr-use")
    # ---- plain values
    for tp in TYPES:
        short = tp.split("::")[-1]
        adt = prog.adts.get(tp)
        if not run.ob("values", "%s exists" % short, adt is not None, key="values|missing " + tp):
            continue
        for tr in ("core::clone::Clone", "core::cmp::PartialEq"):
            ims = [im for im in prog.impls if im.get("trait") == tr and prog.ty(im["self_ty"]).get("path") == tp]
            run.ob("values", "%s: %s is compiler-derived" % (short, tr.split("::")[-1]), len(ims) == 1 and ims[0]["derived"],
                   key="values|%s: %s missing or hand-written" % (short, tr.split("::")[-1]), nontrivial=("derive", short, tr), loc=prog.loc(adt["span"]))
        for v in adt["variants"]:
            for fld in v["fields"]:
                for (kind, s, path) in typeclosure.closure(prog, fld["ty"]):
                    run.ob("values", "%s.%s stores %s %s" % (short, fld["name"], kind, s), kind in ("prim", "param"),
                           key="values|%s.%s stores %s %s (not plain owned data)" % (short, fld["name"], kind, s), nontrivial=("closure", kind))
    # ---- clear == new (field coverage)
    data = e2props.load(run, ["dev", "rel"] if tier == "thorough" else ["dev"], ["ctor"])
    for (prof, entry), recs in sorted(data.items()):
        tab = {}
        for rec in recs:
            tab.setdefault(rec["table"], []).append(rec)
        ref = None
        for name in ("new", "default", "with_capacity", "clear"):
            rs = tab.get(name, [])
            if not run.ob("fresh", "%s/%s evaluated" % (name, prof), len(rs) >= 1 and all(r["exit"] == "return" for r in rs), key="fresh|%s not decided" % name, detail=rs):
                continue
            for r in rs:
                fl = r["fields"]
                for fn in r["adt_fields"]:
                    want = "Vec(len=0)" if fn == "nodes" else "None"
                    run.ob("fresh", "%s/%s: field %s = %s" % (name, prof, fn, want), fl.get(fn) == want,
                           key="fresh|%s leaves field %s = %s (a fresh arena has %s)" % (name, fn, fl.get(fn), want), detail=r, nontrivial=("fresh", name, fn), sample=(name == "clear"))
        for r in tab.get("reserve", []):
            ok = r["exit"] == "return" and not r["len_changed"] and not r["arena_writes"] and all(e[0] == "capacity-change" for e in r["events"])
            run.ob("capacity", "reserve/%s changes nothing but capacity" % prof, ok, key="capacity|reserve changes observable state", detail=r, nontrivial="reserve")
        for r in tab.get("capacity", []):
            run.ob("capacity", "capacity/%s only reads" % prof, r["exit"] == "return" and not r["events"] and not r["arena_writes"], key="capacity|capacity() writes", detail=r)
    callers = sorted({k for (k, bi, t) in idx.callers.get("alloc::vec::Vec::<T, A>::capacity", [])
                      if any(prog.tys(a).startswith("crate::node::Node<") for a in t["callee"].get("args", []) if isinstance(a, int))})
    CAPFN = "crate::arena::Arena<T>::capacity"
    strayc = [c for c in callers if not idx.gated(c, {CAPFN})]
    run.ob("capacity", "Vec::capacity of the slot vector is read only in Arena::capacity (or helpers reachable only through it): %s" % callers, bool(callers) and not strayc,
           key="capacity|capacity observed in %s" % ",".join(strayc), detail=callers, nontrivial="capread", sample=True)
    # with_capacity(n) / reserve(k) are the Vec call on the slot vector with the caller's argument (decided on the E2 records: whatever private helper the call goes
    # through, exactly one capacity request reaches the vector and it carries the symbolic argument unchanged)
    for (prof, entry), recs in sorted(data.items()):
        for r in recs:
            if r.get("table") == "with_capacity" and r.get("exit") == "return":
                ev = [e for e in r.get("events", []) if e[0] in ("with_capacity", "capacity-change")]
                ok = len(ev) == 1 and ev[0][0] == "with_capacity" and ev[0][1].startswith("('n',)")
                run.ob("capacity", "with_capacity(n)/%s requests room for exactly n slots" % prof, ok, key="capacity|Arena::with_capacity is not a single with_capacity call", detail=ev, nontrivial=("cap", "with_capacity"))
            if r.get("table") == "reserve" and r.get("exit") == "return":
                ev = [e for e in r.get("events", []) if e[0] in ("with_capacity", "capacity-change")]
                ok = len(ev) == 1 and ev[0][0] == "capacity-change" and str(ev[0][1]).endswith("::reserve") and str(ev[0][2] if len(ev[0]) > 2 else "").startswith("('k',)")
                run.ob("capacity", "reserve(k)/%s reserves room for exactly k more slots" % prof, ok, key="capacity|Arena::reserve is not a single reserve call", detail=ev, nontrivial=("cap", "reserve"))
    controls.selftest(run, ['ambient call (time)', 'atomic call', 'static item', 'pointer->integer cast', 'interior mutability in a field'])
    run.extra["written_argument"] = ("No ambient state + no interior mutability (C18) + single-threaded &mut access => every call is a function of (arguments, Arena fields); by induction two arenas "
                                     "built by the same calls are field-wise equal (derived PartialEq) and issue the same ids. A derived Clone of plain owned data is equal and shares no storage. "
                                     "clear() leaves exactly the field values of a fresh arena (all fields compared), capacity excepted, and capacity is observable only through capacity().")
    run.assumptions += ["Vec::with_capacity/reserve guarantee room as documented (trusted std)", "payload Clone/PartialEq impls are the user's"]
    return run.finish()
