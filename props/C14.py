"""C14 — debug_pretty_print: step tables of the driver and of the indent writer, with structural clauses as fall-back.

Semantic clauses (abstract interpretation of the MIR, vlib/absint/ppstep.py + ppdriver.py; nothing is addressed by private name):
  (6) the indent writer as a transducer: for every step (open an item, close an item, write one line fragment) and every abstract pre-state of the invariant (indent
      stack of any depth = one summarised run + explicit top; arbitrary input string = text / line break / rest) the emitted text and the post-state equal the reference
      transducer, and no step panics
  (7) the driver: the fmt bodies format the start node's payload, hand the edge-dispatch function a traversal rooted at the start node positioned after Start(x) and a
      fresh writer, format exactly the node the dispatch function reports and return when it reports none; the dispatch function, per edge of the traversal, opens one
      item for Start(c) with the `last` flag = "c has no next sibling" and returns c, closes one item for End(c), stops at End(x) / exhaustion, taking one edge per step
With C09 (the edges are the Euler tour of the subtree) and the written induction, (6)+(7) are the documented layout.  Each of them gives a verdict only when every construct
on its paths is modelled; otherwise it prints a NOTE, records `undecided_clauses` in the evidence and the structural clauses take over - an unmodelled construct never
becomes a violation and never counts as "held".
Structural clauses (origin / dominance rules over the MIR; (1)-(3) are the fall-back for (7), (4) for (6); (5) always runs):
  (1) confinement: both fmt impls obtain node ids only from self.id and from the ids returned by prepare_next_node_printing, which returns only payloads of Start edges of the
      one Traverse constructed from *self.id (origin rules) - with C09 this gives exactly the subtree, in pre-order
  (2) pairing: in prepare_next_node_printing open_item is called at exactly one site, on the Start arm, and the id returned is that Start's payload; close_item at exactly one
      site on the End arm; neither is called anywhere else in the crate
  (3) last-sibling flag: open_item's argument is next_sibling().is_none() of the node being opened
  (4) table agreement of the guide strings for all four (is_last_item, is_first_line) combinations (evaluated by E2)
  (5) format modes: in each fmt body every payload write is selected by f.alternate(), with one template per mode used at every site, the bare placeholder for the plain mode,
      the trait of the impl as formatting trait, and the same template pair in Display and Debug
"""
import json, re
from vlib import facts, rules, e2props, xcfg
from vlib.report import Run
from vlib.cfg import CFG

PP = "crate::debug_pretty_print::"
FMT_D = "<crate::debug_pretty_print::DebugPrettyPrint<'_, T> as core::fmt::Display>::fmt"
FMT_G = "<crate::debug_pretty_print::DebugPrettyPrint<'_, T> as core::fmt::Debug>::fmt"
INDEX = "<crate::arena::Arena<T> as core::ops::index::Index<crate::id::NodeId>>::index"


def main(tier):
    run = Run("C14", tier, level="other")
    run.explanation = ("Step tables of the printing driver and of the indent writer (abstract interpretation; each compared with a reference) plus the format-mode clause; structural "
                       "origin/dominance clauses take over when a step table meets an unmodelled construct. The composition of the step tables into the whole text (induction over the "
                       "Euler tour, C09) is a written argument, not machine-checked, so the level stays `other`.")
    run.rule = "obligation = one structural fact (call site, origin, table row); non-trivial = distinct facts"
    prog = facts.load("dev", None)
    idx = rules.Index(prog)
    pnp = prog.fns.get(PP + "prepare_next_node_printing")
    # (7) the driver as step tables (vlib/absint/ppdriver.py): what the fmt bodies and the edge-dispatch function do with the traversal.  When this analysis
    # decides every step, it subsumes the structural clauses (1)-(3) below (which are shaped after today's division of labour between fmt and the dispatch
    # function and are used only as a fall-back).
    profiles = ["dev"] if tier == "quick" else ["dev", "rel"]
    sdata = e2props.load(run, profiles, ["ppstep"])
    DRIVER = ("dispatch", "dispatch-flag", "fmt")
    driver_decided = True
    for (prof, entry), recs in sorted(sdata.items()):
        drv = [r for r in recs if r.get("step") in DRIVER or r.get("step") == "driver-setup"]
        if not [r for r in drv if r.get("step") == "driver-setup" and r.get("exit") == "return"] or [r for r in drv if r.get("exit") == "undecided"]:
            driver_decided = False
            why_ = sorted({(r.get("msg") or "")[:160] for r in drv if r.get("exit") == "undecided"}) or ["driver analysis did not run"]
            run.extra.setdefault("undecided_clauses", []).append({"clause": "driver", "profile": prof, "reasons": why_})
            print("NOTE: C14 clause (7) (driver step tables, %s) is undecided on this tree: %s - falling back to the structural clauses (1)-(3)" % (prof, why_[:2]))
        dsetup = next((r for r in drv if r.get("step") == "driver-setup" and r.get("exit") == "return"), None)

        def dloc(r):
            if not dsetup:
                return None
            k = dsetup["dispatch"] if r.get("step", "").startswith("dispatch") else dsetup["fmts"].get(r.get("trait"))
            f_ = prog.fns.get(k) if k else None
            return prog.loc(f_["span"]) if f_ else None
        for r in drv:
            if r.get("ok") is False:
                why = re.sub(r"\bn\d+\b", "n_", (r.get("why") or ["differs from the reference"])[0])
                run.ob("driver", "%s/%s (%s): as the reference driver" % (r["step"], prof, r.get("edge") or r.get("trait") or ""), False,
                       key="driver|%s|%s" % (r["step"], why[:160]), detail=r, loc=dloc(r), nontrivial=("driver", r["step"], r.get("edge"), r.get("trait")))
            elif r.get("exit") == "panic":
                run.ob("driver", "%s/%s does not panic" % (r["step"], prof), False, key="driver|%s|may panic: %s" % (r["step"], e2props.panic_kind(r.get("msg"))), detail=r)
            elif r.get("ok") is True and driver_decided:
                run.ob("driver", "%s/%s (%s, %s): as the reference driver" % (r["step"], prof, r.get("edge") or r.get("trait") or "", r.get("stack") or r.get("dispatch_says") or ""), True,
                       nontrivial=("driver", r["step"], r.get("edge"), r.get("trait"), r.get("stack"), r.get("alternate"), r.get("dispatch_says"), r.get("next_sibling_none")),
                       sample=(r.get("step") == "dispatch" and r.get("edge") == "Start(c)" and r.get("stack") == "nonempty" and r.get("next_sibling_none") is True))
        if driver_decided:
            run.floor("driver step cases (%s)" % prof, len([r for r in drv if r.get("ok") is True]), 30)
    if not driver_decided:
        # (1) confinement
        for key in (FMT_D, FMT_G):
            f = prog.fns.get(key)
            short = "Display" if "Display" in key else "Debug"
            if not run.ob("confinement", "%s::fmt exists" % short, f is not None, key="confinement|%s::fmt missing" % short):
                continue
            calls = [(bi, t, rules.callee_name(t["callee"])) for bi, t in prog.calls(f)]
            trav = [c for c in calls if c[2] == "crate::id::NodeId::traverse"]
            ok = len(trav) == 1
            run.ob("confinement", "%s::fmt constructs exactly one Traverse" % short, ok, key="confinement|%s::fmt does not construct exactly one traversal" % short, detail=[c[2] for c in calls if "traverse" in c[2].lower()], nontrivial=(short, "trav"))
            if ok:
                org = rules.origin(prog, f, trav[0][1]["args"][0])
                run.ob("confinement", "%s::fmt: the traversal starts at *self.id" % short, any(o[0] == "arg" and o[1] == 1 and ".id" in o[2] for o in org) and not any(o[0] in ("call", "const") for o in org),
                       key="confinement|%s::fmt: traversal does not start at self.id" % short, detail=sorted(map(str, org)), nontrivial=(short, "start"), sample=True)
            ix = [c for c in calls if c[2] == INDEX]
            for (bi, t, n) in ix:
                org = rules.origin(prog, f, t["args"][1])
                from_self = any(o[0] == "arg" and o[1] == 1 and ".id" in o[2] for o in org)
                from_pnp = any(o[0] == "call" and o[1] in (PP + "prepare_next_node_printing", "<core::result::Result<T, E> as core::ops::try_trait::Try>::branch") for o in org)
                other = [o for o in org if o[0] in ("const", "agg") or (o[0] == "call" and o[1] not in (PP + "prepare_next_node_printing", "<core::result::Result<T, E> as core::ops::try_trait::Try>::branch"))]
                run.ob("confinement", "%s::fmt: printed node id comes from self.id or prepare_next_node_printing" % short, (from_self or from_pnp) and not other,
                       key="confinement|%s::fmt prints a node whose id has another origin" % short, detail=sorted(map(str, org)), loc=prog.loc(t.get("span")), nontrivial=(short, "ix", from_self))
            run.floor("%s::fmt node lookups" % short, len(ix), 2)
            others = sorted({c[2] for c in calls if c[2].startswith("crate::id::NodeId::") and c[2] != "crate::id::NodeId::traverse"} |
                            {c[2] for c in calls if c[2].startswith("crate::node::Node<T>::") and c[2] != "crate::node::Node<T>::get"})
            run.ob("confinement", "%s::fmt walks no link itself" % short, not others, key="confinement|%s::fmt navigates links itself: %s" % (short, others), detail=others)
        if run.ob("pairing", "prepare_next_node_printing exists", pnp is not None, key="pairing|prepare_next_node_printing missing"):
            calls = [(bi, t, rules.callee_name(t["callee"])) for bi, t in prog.calls(pnp)]
            nxt = [c for c in calls if c[2].endswith("Traverse<'_, T> as core::iter::traits::iterator::Iterator>::next")]
            run.ob("pairing", "edges come from Traverse::next of the traverser argument only", len(nxt) == 1 and
                   any(o[0] == "arg" and o[1] == 2 for o in rules.origin(prog, pnp, nxt[0][1]["args"][0])), key="pairing|edges are not taken from the traverser argument", detail=[c[2] for c in calls], nontrivial="edges")
            opens = [c for c in calls if c[2].endswith("IndentWriter<'a, 'b>::open_item")]
            closes = [c for c in calls if c[2].endswith("IndentWriter<'a, 'b>::close_item")]
            run.ob("pairing", "open_item called at exactly one site, close_item at exactly one site", len(opens) == 1 and len(closes) == 1,
                   key="pairing|open_item/close_item call sites: %d/%d" % (len(opens), len(closes)), nontrivial="sites", sample=True)
            for nm in ("open_item", "close_item"):
                callers = sorted({k for (k, bi, t) in idx.callers.get(PP + "IndentWriter<'a, 'b>::" + nm, [])})
                run.ob("pairing", "%s is called only from prepare_next_node_printing" % nm, callers == [PP + "prepare_next_node_printing"], key="pairing|%s also called from %s" % (nm, callers), detail=callers, nontrivial=("callers", nm))
            # the switch on the edge discriminant: Start arm dominates open_item, End arm dominates close_item
            cfg = CFG(pnp["mir"])
            sw = [(bi, t) for bi, t in prog.terms(pnp) if t["k"] == "switch" and prog.ty(t["ty"])["k"] == "int" and len(t["arms"]) >= 1]
            arms = None
            for bi, t in sw:
                # find the discriminant read of a NodeEdge place feeding this switch
                for bj, sj, s in prog.stmts(pnp):
                    if bj == bi and s["k"] == "assign" and s["rv"]["k"] == "discr" and prog.ty(s["rv"]["ty"]).get("path") == "crate::traverse::NodeEdge":
                        names = {v: n for n, v in s["rv"]["variants"]}
                        arms = {names.get(v): tgt for v, tgt in t["arms"]}
                        for n in names.values():
                            arms.setdefault(n, t["otherwise"])
            if run.ob("pairing", "the Start/End dispatch of prepare_next_node_printing is found", arms is not None and "Start" in arms and "End" in arms, key="pairing|no match on the edge kind"):
                if opens and closes:
                    ob, cb = opens[0][0], closes[0][0]
                    run.ob("pairing", "open_item is on the Start arm only", cfg.dominates(arms["Start"], ob) and not cfg.dominates(arms["End"], ob) and ob not in _reach_wo(cfg, arms["End"], arms["Start"]),
                           key="pairing|open_item is not confined to the Start arm", nontrivial="open-arm")
                    run.ob("pairing", "close_item is on the End arm only", cfg.dominates(arms["End"], cb) and cb not in _reach_wo(cfg, arms["Start"], arms["End"]),
                           key="pairing|close_item is not confined to the End arm", nontrivial="close-arm")
                    # returned id = payload of the Start edge; same id used for the last-sibling test
                    ret = rules.origin(prog, pnp, {"k": "copy", "place": {"l": 0, "p": []}})
                    ids = [o for o in ret if o[0] == "agg"]
                    run.ob("pairing", "returns Some(id)/None built in place", bool(ids), key="pairing|return value is not built from the edge", detail=sorted(map(str, ret)))
                    # (3) last-sibling flag
                    org = rules.origin(prog, pnp, opens[0][1]["args"][1])
                    ok3 = any(o[0] == "call" and o[1] == "core::option::Option::<T>::is_none" for o in org)
                    run.ob("last-sibling", "open_item's flag is an Option::is_none()", ok3, key="last-sibling|open_item flag is not `...is_none()`", detail=sorted(map(str, org)), nontrivial="flag1")
                    isn = [c for c in calls if c[2] == "core::option::Option::<T>::is_none"]
                    ns = [c for c in calls if c[2] == "crate::node::Node<T>::next_sibling"]
                    other_links = [c[2] for c in calls if c[2].startswith("crate::node::Node<T>::") and c[2] != "crate::node::Node<T>::next_sibling"]
                    ok3b = len(isn) == 1 and len(ns) == 1 and not other_links and any(o[0] == "call" and o[1] == "crate::node::Node<T>::next_sibling" for o in rules.origin(prog, pnp, isn[0][1]["args"][0]))
                    run.ob("last-sibling", "the flag is next_sibling().is_none() (no other link is read)", ok3b, key="last-sibling|open_item flag is not next_sibling().is_none()", detail=[c[2] for c in calls], nontrivial="flag2", sample=True)
                    if ns:
                        o2 = rules.origin(prog, pnp, ns[0][1]["args"][0])
                        ixs = [c for c in calls if c[2] == INDEX]
                        same = len(ixs) == 1 and any(o[0] == "call" and o[1] == INDEX for o in o2)
                        run.ob("last-sibling", "next_sibling is read from the node being opened (arena[id])", same, key="last-sibling|flag is computed from another node", detail=sorted(map(str, o2)), nontrivial="flag3")
    # clause (6) decides the rendering of every indent entry semantically; the table clause (4) below reads the guide-string helpers by today's private names
    # and is used only when (6) gives no verdict
    steps_decided = all(not [r for r in recs if r.get("step") not in DRIVER and r.get("step") != "driver-setup" and r.get("exit") == "undecided"]
                        and [r for r in recs if r.get("step") == "setup" and r.get("exit") == "return" and not [k for k in (r["found"].get("other_write_items") or []) if not k.endswith("::write_char")]]
                        for recs in sdata.values()) and bool(sdata)
    if not steps_decided:
      try:
          # (4) guide-string tables via E2
          data = e2props.load(run, ["dev"], ["ppconst"])
          for (prof, entry), recs in data.items():
              for r in recs:
                  tag = "(last=%s, first=%s)" % (r["is_last_item"], r["is_first_line"])
                  strs = all(isinstance(r.get(k), str) for k in ("as_str", "as_str_leading", "as_str_trailing_spaces")) and isinstance(r.get("is_all_whitespace"), bool)
                  if not run.ob("tables", "guide strings for %s are constants" % tag, strs, key="tables|guide strings for %s are not constant tables" % tag, detail=r):
                      continue
                  run.ob("tables", "%s: as_str = leading ++ trailing" % tag, r["as_str"] == r["as_str_leading"] + r["as_str_trailing_spaces"], key="tables|as_str != as_str_leading ++ as_str_trailing_spaces for %s" % tag, detail=r, nontrivial=("concat", tag), sample=True)
                  run.ob("tables", "%s: every guide is 4 columns wide" % tag, len(r["as_str"]) == 4, key="tables|guide for %s is not 4 columns" % tag, detail=r, nontrivial=("w", tag))
                  run.ob("tables", "%s: is_all_whitespace <=> as_str is blank" % tag, r["is_all_whitespace"] == (r["as_str"].strip() == ""), key="tables|is_all_whitespace wrong for %s" % tag, detail=r, nontrivial=("ws", tag))
                  want = {(False, True): "|-- ", (False, False): "|   ", (True, True): "`-- ", (True, False): "    "}[(r["is_last_item"], r["is_first_line"])]
                  run.ob("tables", "%s: guide is %r as documented" % (tag, want), r["as_str"] == want, key="tables|guide for %s is %r, documented %r" % (tag, r["as_str"], want), detail=r, nontrivial=("doc", tag))
              run.floor("guide-string rows", len(recs), 4)
          cpi = prog.fns.get(PP + "IndentWriter<'a, 'b>::complete_partial_indent")
          if cpi is not None:
              lits = [rules.origin(prog, cpi, t["args"][1]) for _, t in prog.calls(cpi) if rules.callee_name(t["callee"]).endswith("Formatter::<'a>::write_str")]
              consts = sorted({o[1] for org in lits for o in org if o[0] == "const" and isinstance(o[1], str)})
              run.ob("tables", "complete_partial_indent pads pending levels with the blank guide: %s" % consts, consts == ["    "], key="tables|pending-level padding literal is %s" % consts, detail=consts, nontrivial="pad")
      except (KeyError, TypeError) as e:
        run.extra.setdefault("undecided_clauses", []).append({"clause": "tables", "reasons": ["guide-string helpers not found under their expected names (%s)" % e]})
        print("NOTE: C14 clause (4) (guide-string tables) is undecided on this tree: helper or field names differ (%s)" % e)
    # (6) the indent writer as a transducer: every step from every abstract pre-state of the invariant compared with the reference transducer (vlib/absint/ppstep.py)
    for (prof, entry), recs in sorted(sdata.items()):
        recs = [r for r in recs if r.get("step") not in DRIVER and r.get("step") != "driver-setup"]
        und = [r for r in recs if r.get("exit") == "undecided"]
        bad = [r for r in recs if r.get("ok") is False]
        pan = [r for r in recs if r.get("exit") == "panic"]
        okc = len([r for r in recs if r.get("ok") is True])
        setup = next((r for r in recs if r.get("step") == "setup" and r.get("exit") == "return"), None)
        def sloc(r):
            if not setup:
                return None
            k = {"open": setup["found"]["open"], "close": setup["found"]["close"], "write": setup["found"]["write_str"], "new": setup["found"]["new"]}.get(r.get("step"))
            if r.get("step") == "write_char":
                k = next((x for x in setup["found"].get("other_write_items") or [] if x.endswith("::write_char")), None)
            f_ = prog.fns.get(k) if k else None
            return prog.loc(f_["span"]) if f_ else None
        for r in bad:
            why = re.sub(r"\b([gtrsi])\d+\b", r"\1_", (r.get("why") or ["differs from the reference transducer"])[0])
            why = re.sub(r"\(entries .*\)$", "", why).strip()
            run.ob("steps", "%s/%s from (%s, %s): equals the reference transducer" % (r["step"], prof, r.get("line"), r.get("stack")), False,
                   key="steps|%s|%s" % (r["step"], why[:160]), detail=r, loc=sloc(r), nontrivial=("step", r["step"], r.get("line"), r.get("stack"), r.get("fragment")))
        for r in pan:
            run.ob("steps", "%s/%s from (%s, %s): does not panic" % (r["step"], prof, r.get("line"), r.get("stack")), False,
                   key="steps|%s|may panic: %s" % (r["step"], e2props.panic_kind(r.get("msg"))), detail=r)
        unfollowed = [k for k in (setup["found"].get("other_write_items") or []) if not k.endswith("::write_char")] if setup else []
        if unfollowed:
            und = und + [{"msg": "the writer overrides %s, which this analysis does not follow" % unfollowed}]
        if und:
            # an unmodelled construct: this clause gives no verdict on this tree (the structural clauses above still apply); recorded, never assumed fine
            run.extra.setdefault("undecided_clauses", []).append({"clause": "steps", "profile": prof, "reasons": sorted({(u.get("msg") or "")[:200] for u in und})})
            print("NOTE: C14 clause (6) (indent writer step table, %s) is undecided on this tree: %s" % (prof, sorted({(u.get("msg") or "")[:120] for u in und})[:2]))
            continue
        for r in recs:
            if r.get("ok") is True:
                run.ob("steps", "%s/%s from (%s, %s%s): equals the reference transducer" % (r["step"], prof, r.get("line"), r.get("stack"), (", " + r["fragment"]) if r.get("fragment") else ""), True,
                       nontrivial=("step", r["step"], r.get("line"), r.get("stack"), r.get("fragment"), r.get("arg"), r.get("emitted")), sample=(r.get("fragment") == "line" and "mapseg" in (r.get("emitted") or "")))
        run.floor("indent-writer step cases (%s)" % prof, okc, 30)
    # (5) format modes.  With the driver tables decided the clause is read off them (each fmt body was run with f.alternate() false and true; the records carry the
    # trait and the template of every payload write): one template per mode, the modes differ, the plain mode is the bare placeholder, Display and Debug use the
    # same pair.  This holds wherever the writes sit (fmt itself, a shared generic helper, a closure).  The structural form below is the fall-back.
    arm_tpl = {}
    if driver_decided:
        for (prof, entry), recs in sorted(sdata.items()):
            per = {}
            for r in recs:
                if r.get("step") == "fmt" and r.get("exit") == "return":
                    per.setdefault((r["trait"], r["alternate"]), set()).update(r.get("templates") or [None])
            pairs = {}
            for trait in sorted({k[0] for k in per}):
                plain, alt = per.get((trait, False), set()), per.get((trait, True), set())
                ok = len(plain) == 1 and len(alt) == 1 and plain != alt and None not in plain | alt
                run.ob("modes", "%s::fmt/%s: one format template per mode, the same for every payload, and the two modes differ" % (trait, prof), ok,
                       key="modes|%s::fmt: format templates per mode are %s / %s" % (trait, sorted(map(str, plain)), sorted(map(str, alt))), nontrivial=(trait, "templates"), sample=True)
                if ok:
                    p0 = next(iter(plain))
                    run.ob("modes", "%s::fmt/%s: the non-alternate mode uses the bare placeholder `{}`" % (trait, prof), "mem{c000}" in p0,
                           key="modes|%s::fmt: non-alternate template is not the bare placeholder" % trait, detail=p0)
                    pairs[trait] = (p0, next(iter(alt)))
            run.ob("modes", "both fmt impls were run in both modes (%s)" % prof, set(per) >= {(t_, a_) for t_ in ("Display", "Debug") for a_ in (False, True)},
                   key="modes|fmt cases missing from the driver tables", detail=sorted(map(str, per)))
            if len(pairs) == 2:
                run.ob("modes", "Display and Debug use the same pair of templates (they differ only in the trait) (%s)" % prof, pairs["Display"] == pairs["Debug"],
                       key="modes|Display and Debug use different format templates", detail=pairs, nontrivial="modes-x")
    for key in (() if driver_decided else (FMT_D, FMT_G)):
        f = prog.fns.get(key)
        if f is None:
            continue
        short = "Display" if "Display" in key else "Debug"
        cfg = CFG(f["mir"])
        calls = [(bi, t, rules.callee_name(t["callee"])) for bi, t in prog.calls(f)]
        alt = [c for c in calls if c[2].endswith("Formatter::<'a>::alternate")]
        sws = []
        for bi, t in prog.terms(f):
            if t["k"] == "switch" and prog.ty(t["ty"])["k"] == "bool":
                org = rules.origin(prog, f, t["discr"])
                if any(o[0] == "call" and o[1].endswith("Formatter::<'a>::alternate") for o in org) and len(t["arms"]) == 1 and t["arms"][0][0] == 0:
                    sws.append((bi, t["arms"][0][1], t["otherwise"]))      # (block, target when false, target when true)
        wf = [c for c in calls if c[2].endswith("::write_fmt")]
        run.floor("%s::fmt payload writes" % short, len(wf), 2)
        per_arm = {True: set(), False: set()}
        for (bi, t, n) in wf:
            arm = None
            for (sb, tf, tt) in sws:
                if cfg.dominates(tt, bi) and not cfg.dominates(tf, bi):
                    arm = True
                elif cfg.dominates(tf, bi) and not cfg.dominates(tt, bi):
                    arm = False
            org = rules.origin(prog, f, t["args"][1])
            an = [o for o in org if o[0] == "call" and "Arguments" in o[1]]
            tpl, ctor = None, None
            for bj, tj, nj in calls:
                if nj.endswith("Arguments::<'a>::new") and cfg.dominates(bj, bi) and (arm is None or any(cfg.dominates(x, bj) for x in [s_[2] if arm else s_[1] for s_ in sws])):
                    o1 = rules.origin(prog, f, tj["args"][0])
                    cs = [o for o in o1 if o[0] == "const"]
                    cand = None
                    for bk, sk, st_ in prog.stmts(f):
                        if bk == bj and st_["k"] == "assign" and st_["rv"]["k"] == "use" and st_["rv"]["op"].get("k") == "const" and st_["rv"]["op"].get("ptr"):
                            cand = st_["rv"]["op"]["ptr"]
                    if cand and (tpl is None or cfg.dominates(bj, bi)):
                        tpl = cand
                if nj.startswith("core::fmt::rt::Argument::<'_>::new_") and cfg.dominates(bj, bi):
                    ctor = nj.rsplit("::", 1)[-1]
            run.ob("modes", "%s::fmt: payload write is selected by f.alternate()" % short, arm is not None,
                   key="modes|%s::fmt writes a payload without consulting f.alternate()" % short, loc=prog.loc(t.get("span")), nontrivial=(short, "guard", arm))
            if arm is not None:
                per_arm[arm].add(tpl)
            want = "new_display" if short == "Display" else "new_debug"
            run.ob("modes", "%s::fmt: payload is formatted through the %s trait" % (short, short), ctor == want, key="modes|%s::fmt formats a payload through %s" % (short, ctor), nontrivial=(short, "trait"))
        ok = len(per_arm[True]) == 1 and len(per_arm[False]) == 1 and per_arm[True] != per_arm[False] and None not in per_arm[True] | per_arm[False]
        run.ob("modes", "%s::fmt: one format template per mode, the same at every site, and the two modes differ" % short, ok,
               key="modes|%s::fmt: format templates per mode are %s / %s" % (short, sorted(map(str, per_arm[False])), sorted(map(str, per_arm[True]))), detail={str(k): sorted(map(str, v)) for k, v in per_arm.items()},
               nontrivial=(short, "templates"), sample=True)
        if ok:
            plain = next(iter(per_arm[False]))
            run.ob("modes", "%s::fmt: the non-alternate mode uses the bare placeholder `{}`" % short, plain.startswith("mem{c000}"), key="modes|%s::fmt: non-alternate template is not the bare placeholder" % short, detail=plain)
            arm_tpl[short] = (plain, next(iter(per_arm[True])))
    if len(arm_tpl) == 2:
        run.ob("modes", "Display and Debug use the same pair of templates (they differ only in the trait)", arm_tpl["Display"] == arm_tpl["Debug"],
               key="modes|Display and Debug use different format templates", detail=arm_tpl, nontrivial="modes-x")
    run.assumptions += ["C09 (Traverse yields the subtree's Euler tour)", "payload Display/Debug impls do not panic and do not touch the arena"]
    return run.finish()


def _reach_wo(cfg, start, avoid):
    """Blocks reachable from `start` without passing through `avoid` and without following back edges to the loop head."""
    seen = {start}
    st = [start]
    back = set(cfg.back_edges())
    while st:
        b = st.pop()
        for s in cfg.succ[b]:
            if s == avoid or (b, s) in back or s in seen:
                continue
            seen.add(s)
            st.append(s)
    return seen
