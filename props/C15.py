"""C15 — tree! (partial: structural necessary conditions only).

NOT decided: that nesting in braces becomes parent-child nesting and textual order becomes sibling order for every macro input (correctness of the flattening stack
machine over all token trees).  Decided on the MIR of `indextree_macros::tree` and `Action::to_stream` (each breach breaks C15):
  (1) in the final template the `arena` expression and the `root_node` expression are each interpolated exactly once, `arena` first
  (2) the Append template interpolates its node expression exactly once; Parent and Nest interpolate nothing
  (3) Action::Append is constructed at exactly one site (one node per written expression), Parent and Nest at one site each
  (5) [marker-stack algorithm only] pairing: Nest and its nesting marker are pushed together (control-equivalent), Append dominates Nest, Parent is emitted on the marker arm
  (6) [marker-stack algorithm only] stack discipline: initial stack = nodes reversed; marker pushed below the children on the stack the loop pops; children reversed, taken from the popped node;
      Append carries the popped node's expression
  (7) cursor machine: Append assigns `last = node.append_value(expr, arena)`, Nest assigns `node = last`, Parent assigns `node = <parent of node>`; the block's value is the root id
  (9) generated actions are dropped only by the test for a trailing Parent
  (8) no function other than the analysed templates (Action::to_stream, tree) emits tokens
  (4) the templates name only the API functions append_value, new_node, get, parent, unwrap (read from the identifier constants emitted by quote!)
"""
from vlib import facts, rules
from vlib.report import Run
from vlib.cfg import CFG

TOTOK = "quote::to_tokens::ToTokens>::to_tokens"
API_IDENTS = {"append_value", "new_node", "get", "parent", "unwrap", "take", "new"}
INDEXTREE_API = {"append", "prepend", "insert_after", "insert_before", "checked_append", "checked_prepend", "checked_insert_after", "checked_insert_before", "detach", "remove",
                 "remove_subtree", "get_mut", "new_node", "append_value", "get", "parent", "clear", "reserve", "with_capacity", "children", "descendants"}


def idents_of(prog, f):
    out = []
    for bi, t in prog.calls(f):
        n = rules.callee_name(t["callee"])
        if n.endswith("push_ident"):
            org = rules.origin(prog, f, t["args"][1])
            ss = [o[1] for o in org if o[0] == "const" and isinstance(o[1], str)]
            out.append((bi, ss[0] if ss else None))
    return out


PUNCT = {"push_eq": "=", "push_semi": ";", "push_dot": ".", "push_colon2": "::", "push_comma": ",", "push_colon": ":", "push_lt": "<", "push_gt": ">", "push_and": "&",
         "push_rarrow": "->", "push_underscore": "_", "push_pound": "#"}


def token_stream(prog, f, blocks=None):
    """Tokens emitted by quote! in block order: identifiers, punctuation, '(group)' markers, '#expr' interpolations."""
    out = []
    for bi, t in prog.calls(f):
        if blocks is not None and bi not in blocks:
            continue
        n = rules.callee_name(t["callee"]).rsplit("::", 1)[-1]
        if n == "push_ident":
            org = rules.origin(prog, f, t["args"][1])
            ss = [o[1] for o in org if o[0] == "const" and isinstance(o[1], str)]
            out.append(ss[0] if ss else "?")
        elif n in PUNCT:
            out.append(PUNCT[n])
        elif n == "push_group":
            out.append("(group)")
        elif rules.callee_name(t["callee"]).endswith(TOTOK):
            out.append("#expr")
    return out


def has_subseq(tokens, pat):
    n = len(pat)
    return any(tokens[i:i + n] == pat for i in range(len(tokens) - n + 1))


def main(tier):
    run = Run("C15", tier, level="other")
    run.explanation = ("Structural necessary conditions on the proc-macro's code generator only (single interpolation of the arena and root expressions in order, single interpolation per "
                       "node expression, one construction site per action kind, only the intended API named in the emitted code). That nesting/sibling order of the built tree equals the "
                       "written literal for every input - correctness of the flattening stack machine - is not decided by this static analysis and is not claimed.")
    run.rule = "obligation = one structural fact about the generator (interpolation site, construction site, emitted identifier); non-trivial = distinct facts"
    prog = facts.load("dev", None, crate="indextree_macros")
    f = prog.fns.get("crate::tree")
    # the function holding the final template: the one that interpolates fields of the parsed macro input (tree itself today; a helper such as `expand` is the same thing)
    def _from_input(o):
        # a field of the parsed input: the result of syn::parse / parse2 / parse_macro_input!, possibly unwrapped by `?`
        return o[0] == "call" and ("syn::parse" in o[1] or (o[1].endswith("try_trait::Try>::branch") and "Continue.0." in o[3]))

    def _interpolates_input(fn_):
        for bi_, t_ in prog.calls(fn_):
            if rules.callee_name(t_["callee"]).endswith(TOTOK):
                if any(_from_input(o) for o in rules.origin(prog, fn_, t_["args"][0])):
                    return True
        return False
    fcands = [fn_ for k_, fn_ in sorted(prog.fns.items()) if "mir" in fn_ and not fn_.get("impl_derived") and "{closure" not in k_ and _interpolates_input(fn_)]
    if len(fcands) == 1:
        f = fcands[0]
    # the function holding the per-action templates: it dispatches on the Action kind and emits tokens (Action::to_stream today; found by what it does, not by name)
    gs = []
    for k, fn_ in prog.fns.items():
        if "mir" not in fn_ or fn_.get("impl_derived"):
            continue
        disc = any(st_["k"] == "assign" and st_["rv"]["k"] == "discr" and prog.ty(st_["rv"]["ty"]).get("path") == "crate::Action" for _, _, st_ in prog.stmts(fn_))
        emits = any(rules.callee_name(t["callee"]).startswith("quote::__private::push_") for _, t in prog.calls(fn_))
        if disc and emits:
            gs.append(fn_)
    g = gs[0] if len(gs) == 1 else prog.fns.get("crate::Action::to_stream")
    # the function holding the flattening loop: the one that builds the Action values (tree itself today)
    hk = sorted({a["fn"] for a in rules.aggregates(prog, "crate::Action") if not prog.fns[a["fn"]].get("impl_derived")})
    h = prog.fns.get(hk[0]) if len(hk) == 1 else None
    if not run.ob("setup", "the macro entry point, the per-action template function and the flattening function are identifiable", f is not None and g is not None and h is not None,
                  key="setup|generator functions missing", detail={"templates": [x["key"] for x in gs], "action builders": hk}):
        return run.finish()
    HK = h["key"]
    run.extra["functions"] = {"entry": f["key"], "action templates": g["key"], "flattening loop": HK}
    # (1) interpolations in the final template
    inter = []
    for bi, t in prog.calls(f):
        n = rules.callee_name(t["callee"])
        if n.endswith(TOTOK):
            org = rules.origin(prog, f, t["args"][0])
            names = sorted({o[3].split(".")[-1] for o in org if _from_input(o)})
            inter.append((bi, n, names))
    arena_sites = [i for i in inter if i[2] == ["arena"]]
    root_sites = [i for i in inter if i[2] == ["root_node"]]
    other_expr = [i for i in inter if "syn::expr::Expr" in i[1] and i not in arena_sites and i not in root_sites]
    run.ob("interpolation", "#arena interpolated exactly once", len(arena_sites) == 1, key="interpolation|arena expression interpolated %d times" % len(arena_sites), detail=inter, nontrivial="arena", sample=True)
    run.ob("interpolation", "#root_node interpolated exactly once", len(root_sites) == 1, key="interpolation|root expression interpolated %d times" % len(root_sites), detail=inter, nontrivial="root", sample=True)
    run.ob("interpolation", "no other expression is interpolated by the final template", not other_expr, key="interpolation|another expression is interpolated in the final template", detail=other_expr)
    if len(arena_sites) == 1 and len(root_sites) == 1:
        cfg = CFG(f["mir"])
        run.ob("interpolation", "#arena is emitted before #root_node", cfg.dominates(arena_sites[0][0], root_sites[0][0]), key="interpolation|arena is not evaluated before the root expression", nontrivial="order")
    # the generated action code enters the template once: as a repetition `#(#actions)*` or as one pre-joined token stream
    reps = [i for i in inter if "RepInterp" in i[1] or "TokenStream as quote::to_tokens::ToTokens" in i[1] or "proc_macro2::TokenStream" in i[1]]
    run.ob("interpolation", "the action code is interpolated exactly once (#(#actions)* or one joined stream)", len(reps) == 1, key="interpolation|action list interpolated %d times" % len(reps), detail=inter, nontrivial="rep")
    # (2) Append template
    gi = []
    for bi, t in prog.calls(g):
        n = rules.callee_name(t["callee"])
        if n.endswith(TOTOK):
            org = rules.origin(prog, g, t["args"][0])
            gi.append((bi, n, sorted(map(str, org))))
    from_append = [i for i in gi if any("Append" in o for o in i[2])]
    run.ob("templates", "Action::to_stream interpolates exactly one value, the Append expression", len(gi) == 1 and len(from_append) == 1,
           key="templates|to_stream interpolates %d values (%d from Append)" % (len(gi), len(from_append)), detail=gi, nontrivial="append-interp", sample=True)
    # (3) construction sites
    for variant in ("Append", "Parent", "Nest"):
        sites = [a for a in rules.aggregates(prog, "crate::Action") if a["variant"] == variant and not prog.fns[a["fn"]].get("impl_derived")]
        run.ob("actions", "Action::%s constructed at exactly one site (in the flattening function)" % variant, len(sites) == 1 and sites[0]["fn"] == HK,
               key="actions|Action::%s constructed at %d site(s)" % (variant, len(sites)), detail=[(s["fn"], prog.loc(s["span"])) for s in sites], nontrivial=("site", variant))
    # Append is pushed inside the flattening loop, once per popped node: its block is in the loop body and is not itself inside an inner loop
    cfg = CFG(h["mir"])
    app = [a for a in rules.aggregates(prog, "crate::Action") if a["variant"] == "Append" and a["fn"] == HK]
    if app:
        heads = {b for (_, b) in cfg.back_edges()}
        inloops = [h for h in heads if cfg.dominates(h, app[0]["bb"])]
        run.ob("actions", "the Append push is inside exactly one loop (the flattening loop)", len(inloops) == 1, key="actions|Append push is inside %d loops" % len(inloops), detail=sorted(heads), nontrivial="apploop")
    # (5) pairing of nesting actions: every Nest is pushed together with exactly one nesting marker, and a popped marker yields exactly one Parent
    nest = [a for a in rules.aggregates(prog, "crate::Action") if a["variant"] == "Nest" and a["fn"] == HK]
    parent = [a for a in rules.aggregates(prog, "crate::Action") if a["variant"] == "Parent" and a["fn"] == HK]
    # the nesting marker, by role: an element of the work stack (the vector the flattening loop pops) that carries no node - built from nothing or from field-less
    # marker structs only (Either::Right(NestingLevelMarker) today; a dedicated enum variant such as StackItem::LevelEnd is the same thing)
    calls0 = [(bi, t, rules.callee_name(t["callee"])) for bi, t in prog.calls(h)]
    stack_tys = {prog.tys(t["callee"]["args"][0]) for bi, t, n in calls0 if n == "alloc::vec::Vec::<T, A>::pop" and t["callee"].get("args") and isinstance(t["callee"]["args"][0], int)}
    stack_adts = {s_.split("<", 1)[0] for s_ in stack_tys} - {"crate::ActionStream", "crate::Action"}

    def carries_nothing(a):
        for o in a["stmt"]["rv"].get("ops", []):
            if o["k"] not in ("copy", "move"):
                continue
            ty = prog.ty(h["mir"]["locals"][o["place"]["l"]]["ty"]) if not o["place"]["p"] else None
            adt = prog.adts.get(ty.get("path")) if ty and ty.get("path") else None
            if not (adt and adt["kind"] == "struct" and not adt["variants"][0]["fields"]):
                return False
        return True
    # Clauses (5) and (6) are necessary conditions of *the marker-stack algorithm* (an explicit work stack whose elements are either a node or a node-less
    # level marker).  They are applied when the flattening function is of that kind - recognised from the element type of the stack it pops: an enum with a
    # field-less alternative, or a generic sum instantiated with a field-less local marker struct.  A different flattening algorithm (recursion, a stack of
    # per-level cursors) is not decided by them: NOTE + undecided_clauses, the other clauses still apply.
    def _unit_struct(path):
        ad = prog.adts.get(path)
        return ad is not None and ad["kind"] == "struct" and not ad["variants"][0]["fields"]

    def _has_marker_alternative(ts):
        ad = prog.adts.get(ts.split("<", 1)[0])
        if ad is not None and ad["kind"] == "enum" and len(ad["variants"]) >= 2 and any(not v["fields"] for v in ad["variants"]):
            return True
        if "<" in ts:
            inner = ts[ts.index("<") + 1:ts.rindex(">")]
            return any(_unit_struct(x.strip()) for x in inner.split(","))
        return False
    marker_stack = any(_has_marker_alternative(ts) for ts in stack_tys if ts.split("<", 1)[0] in stack_adts)
    if not marker_stack:
        run.extra.setdefault("undecided_clauses", []).append({"clause": "(5)/(6) marker-stack discipline", "reason": "the flattening function does not pop a stack of node-or-marker elements: %s" % sorted(stack_tys)})
        print("NOTE: C15 clauses (5)/(6) (pairing and stack discipline of the marker-stack algorithm) do not apply to this flattening function (stack element types: %s); not decided" % sorted(stack_tys))

    def ob56(*a_, **k_):
        return run.ob(*a_, **k_) if marker_stack else False
    markers = [a for adt_ in sorted(stack_adts) for a in rules.aggregates(prog, adt_) if a["fn"] == HK and carries_nothing(a)]
    MARK = {(a["stmt"]["rv"].get("adt"), a["variant"]) for a in markers}
    ob56("pairing", "exactly one site builds the nesting marker (a node-less element of the work stack)", len(markers) == 1, key="pairing|nesting marker built at %d sites" % len(markers),
           detail={"stack element types": sorted(stack_tys)}, nontrivial="marker")
    if len(nest) == 1 and len(markers) == 1:
        ob56("pairing", "the marker push and the Nest action are control-equivalent (one marker per Nest, unconditionally)", cfg.control_equivalent(nest[0]["bb"], markers[0]["bb"]),
               key="pairing|Nest and its nesting marker are not pushed together on every path", detail={"nest_bb": nest[0]["bb"], "marker_bb": markers[0]["bb"]}, nontrivial="nest-marker", sample=True)
    if app and nest:
        ob56("pairing", "every Nest follows the Append of the node being entered (Append dominates Nest)", cfg.dominates(app[0]["bb"], nest[0]["bb"]),
               key="pairing|a Nest can be emitted without the Append of its node", nontrivial="append-nest")
    if parent and app:
        ob56("pairing", "the Parent action is on the marker arm, not on the node arm", not cfg.dominates(app[0]["bb"], parent[0]["bb"]) and not cfg.dominates(parent[0]["bb"], app[0]["bb"]),
               key="pairing|Parent is emitted on the node arm", nontrivial="parent-arm")
    # (6) stack discipline of the flattening loop (each breach changes nesting or sibling order for some literal)
    calls = [(bi, t, rules.callee_name(t["callee"])) for bi, t in prog.calls(h)]

    def org(t, i):
        return rules.origin(prog, h, t["args"][i])

    def has_call(o, suffix):
        return any(x[0] == "call" and x[1].endswith(suffix) for x in o)
    collects = [c for c in calls if c[2].endswith("Iterator::collect")]
    init = [c for c in collects if has_call(org(c[1], 0), "Iterator::rev")]
    ob56("stack", "the work stack is the literal's nodes in reverse (so that pop() yields textual order)", len(init) == 1,
           key="stack|initial work stack is not nodes.into_iter().map(..).rev().collect()", detail=[sorted(map(str, org(c[1], 0))) for c in collects], nontrivial="init-rev", sample=True)
    pops = [c for c in calls if c[2] == "alloc::vec::Vec::<T, A>::pop"]
    exts = [c for c in calls if c[2].endswith("Extend<T>>::extend")]
    mpush = [c for c in calls if c[2] == "alloc::vec::Vec::<T, A>::push" and any(x[0] == "agg" and (x[1], x[2]) in MARK for x in org(c[1], 1))]
    if ob56("stack", "one extend (children), one marker push", len(exts) == 1 and len(mpush) == 1, key="stack|children extend / marker push sites: %d/%d" % (len(exts), len(mpush))):
        e, m = exts[0], mpush[0]
        same_stack = lambda t: any(x[0] == "call" and x[1].endswith("Iterator::collect") and x[2] == init[0][0] for x in org(t, 0)) if init else False
        ob56("stack", "marker and children go onto the same stack the loop pops from", same_stack(e[1]) and same_stack(m[1]) and any(same_stack(p_[1]) for p_ in pops),
               key="stack|marker/children are not pushed onto the work stack", nontrivial="same-stack")
        ob56("stack", "children are pushed in reverse textual order", has_call(org(e[1], 1), "Iterator::rev"), key="stack|children are not pushed reversed (sibling order would flip)",
               detail=sorted(map(str, org(e[1], 1))), nontrivial="child-rev", sample=True)
        ob56("stack", "children come from the popped node", any("children" in str(x) for x in rules.origin(prog, h, [c for c in calls if c[0] < e[0] and c[2].endswith("IntoIterator>::into_iter")][-1][1]["args"][0])),
               key="stack|the pushed children are not the popped node's children", nontrivial="child-src")
        ob56("stack", "the marker is pushed before (below) the children", cfg.dominates(m[0], e[0]) and m[0] != e[0], key="stack|nesting marker is not pushed below the children", nontrivial="marker-below")
    apush = [c for c in calls if c[2] == "alloc::vec::Vec::<T, A>::push" and any(x[0] == "agg" and x[1] == "crate::Action" and x[2] == "Append" for x in org(c[1], 1))]
    if apush:
        agg = [a for a in rules.aggregates(prog, "crate::Action") if a["variant"] == "Append" and a["fn"] == HK][0]
        o = rules.origin(prog, h, agg["stmt"]["rv"]["ops"][0])
        ob56("stack", "Append carries the popped node's own expression", any(x[0] == "call" and x[1] == "alloc::vec::Vec::<T, A>::pop" and ".node" in x[3] for x in o),
               key="stack|Append does not carry the popped node's expression", detail=sorted(map(str, o)), nontrivial="append-src")
    # (7) the generated cursor machine: which variable each template assigns (variable names are read from the declarations, so a consistent rename is fine)
    tt = token_stream(prog, f)
    X = Y = None
    for i in range(len(tt) - 10):
        if tt[i:i + 2] == ["let", "mut"] and tt[i + 3:i + 8] == [":", "::", "indextree", "::", "NodeId"]:
            if tt[i + 8] == "=" and X is None:
                X = tt[i + 2]
            elif tt[i + 8] == ";" and Y is None:
                Y = tt[i + 2]
    if run.ob("cursor-machine", "the generated code declares a node cursor (initialised with the root) and a last-node variable", X is not None and Y is not None,
              key="cursor-machine|declarations `let mut <node>: NodeId = root; let mut <last>: NodeId;` not found", detail=tt[-60:]):
        gcfg = CFG(g["mir"])
        sw = [(bi, t) for bi, t in prog.terms(g) if t["k"] == "switch"]
        arms = {}
        if sw:
            disc = None
            for bj, sj, st_ in prog.stmts(g):
                if bj == sw[0][0] and st_["k"] == "assign" and st_["rv"]["k"] == "discr":
                    disc = {v: n for n, v in st_["rv"]["variants"]}
            if disc:
                for v, tgt in sw[0][1]["arms"]:
                    arms[disc.get(v)] = tgt
                for n_ in disc.values():
                    arms.setdefault(n_, sw[0][1]["otherwise"])
        if run.ob("cursor-machine", "to_stream dispatches on the action kind", set(arms) >= {"Append", "Parent", "Nest"}, key="cursor-machine|no match on the action kind in to_stream"):
            def arm_tokens(name):
                others = [b for k, b in arms.items() if k != name]
                blocks = {b for b in gcfg.reachable_from(arms[name]) if not any(b in gcfg.reachable_from(o) and gcfg.dominates(o, b) for o in others)}
                blocks = {b for b in blocks if gcfg.dominates(arms[name], b)}
                return token_stream(prog, g, blocks)
            ta, tp, tn = arm_tokens("Append"), arm_tokens("Parent"), arm_tokens("Nest")
            run.ob("cursor-machine", "Append: <last> = <node>.append_value(#expr, arena)", has_subseq(ta, [Y, "=", X, ".", "append_value"]) and ta.count("#expr") == 1,
                   key="cursor-machine|Append template is not `last = node.append_value(expr, arena)`", detail=ta, nontrivial="cm-append", sample=True)
            run.ob("cursor-machine", "Nest: <node> = <last>", tn == [X, "=", Y, ";"], key="cursor-machine|Nest template is not `node = last;`", detail=tn, nontrivial="cm-nest", sample=True)
            okp = len(tp) >= 4 and tp[-4] == X and tp[-3] == "=" and tp[-1] == ";" and tp[-2] not in (X, Y) and "parent" in tp and "get" in tp and tp.index("get") < tp.index("parent") \
                and has_subseq(tp, ["let", tp[-2], "="])
            run.ob("cursor-machine", "Parent: <node> = parent of <node> (looked up through Arena::get(..).parent())", okp and X in tp[:-4],
                   key="cursor-machine|Parent template does not move the node cursor to its parent", detail=tp, nontrivial="cm-parent", sample=True)
        tail = [t_ for t_ in tt if t_ not in ("(group)", "#expr")]
        run.ob("cursor-machine", "the macro's value is the root id", len(tail) >= 1 and tail[-1] not in (X, Y, ";") and has_subseq(tt, ["=", tail[-1], ";"]),
               key="cursor-machine|the generated block does not end with the root id", detail=tt[-12:], nontrivial="cm-root")
    # (8) code is generated only by the templates analysed above: no other function of the macro crate emits tokens of its own
    emitters = sorted({k for k, f2 in prog.fns.items() if "mir" in f2 and any(rules.callee_name(t["callee"]).startswith("quote::__private::push_") or rules.callee_name(t["callee"]).startswith("quote::__private::parse")
                                                                            for _, t in prog.calls(f2))})
    known = {f["key"], g["key"]}
    stray = [k for k in emitters if k not in known and not any(k.startswith(kn + "::{closure") for kn in known)]
    run.ob("generators", "tokens are emitted only by the analysed templates (%s): %s" % (sorted(k.rsplit("::", 1)[-1] for k in known), emitters), not stray,
           key="generators|code is also generated in %s" % ",".join(stray), detail=emitters, nontrivial="generators", sample=True)
    # (9) pruning of the action list: if generated actions are ever dropped (Vec::pop on the list of action streams), the only kind the pruning may test for is a
    #     trailing Parent (climbing back after the last node is unobservable); dropping an Append or a Nest loses a node or mis-nests what follows
    apops = [(k, bi) for k, f2 in prog.fns.items() if "mir" in f2 and not f2.get("impl_derived") for bi, t in prog.calls(f2)
             if rules.callee_name(t["callee"]) == "alloc::vec::Vec::<T, A>::pop" and any(prog.tys(a) == "crate::ActionStream" for a in (t["callee"].get("args") or []) if isinstance(a, int))]
    if apops:
        kinds = set()
        for k, f2 in prog.fns.items():
            if "mir" not in f2 or f2.get("impl_derived"):
                continue
            if not any(k == pk or k.startswith(pk + "::{closure") for pk, _ in apops):
                continue        # only kind tests in the function that drops actions (and its closures) can guard the drop
            bodies = [f2["mir"]] + list(f2.get("promoted") or [])
            for body in bodies:
                for blk in body["blocks"]:
                    for st_ in blk["stmts"]:
                        if st_["k"] == "assign" and st_["rv"]["k"] == "aggregate" and st_["rv"].get("adt") == "crate::ActionKind":
                            kinds.add(st_["rv"].get("variant"))
        run.ob("pruning", "generated actions are dropped only by a test for a trailing Parent (kinds tested: %s)" % sorted(kinds), kinds <= {"Parent"} and len(apops) == 1,
               key="pruning|the action list is pruned by a test for %s" % sorted(kinds - {"Parent"}) if kinds - {"Parent"} else "pruning|%d sites drop generated actions" % len(apops),
               detail={"pop sites": apops, "kinds": sorted(kinds)}, nontrivial="pruning")
    # (4) API named by the templates
    ids_tree = [s for _, s in idents_of(prog, f)]
    ids_act = [s for _, s in idents_of(prog, g)]
    run.ob("api", "identifier constants of the templates are readable", None not in ids_tree and None not in ids_act, key="api|template identifiers are not constants")
    named = {s for s in ids_tree + ids_act if s in INDEXTREE_API}
    run.ob("api", "templates name only append_value/new_node/get/parent of the indextree API: %s" % sorted(named), named <= {"append_value", "new_node", "get", "parent"},
           key="api|templates call %s" % sorted(named - {"append_value", "new_node", "get", "parent"}), detail=sorted(named), nontrivial="api", sample=True)
    run.ob("api", "Append template calls append_value exactly once", ids_act.count("append_value") == 1, key="api|append_value named %d times in the Append template" % ids_act.count("append_value"), nontrivial="av")
    run.ob("api", "root creation calls new_node exactly once", ids_tree.count("new_node") == 1, key="api|new_node named %d times in the root template" % ids_tree.count("new_node"), nontrivial="nn")
    run.floor("identifier constants read from the templates", len(ids_tree) + len(ids_act), 100)
    run.assumptions += ["quote!/syn behave as documented (trusted)", "the emitted API functions satisfy C03/C07 (append_value appends a new last child)"]
    return run.finish()
