"""C18 — shared arenas are safe and deterministic to read from many threads.

Decided entirely from compile-time facts:
  R1  #![forbid(unsafe_code)] on the crate root
  R2  no unsafe fn / unsafe block (user-written) / unsafe impl / unsafe trait in the crate
  R3  the state closure of every public type contains only plain owned data:
      primitives, T, Option/Vec/NonZero of those, shared references to the arena
  R4  no `static mut`, no static with interior mutability, no thread-local access
  R5  every function that can be reached from a `&Arena`/`&Node`/iterator receiver takes no `&mut Arena`
      (compile-time aliasing) — witnessed by E3 N5/N6 and by W6
  R6  E3: generic Send/Sync/Freeze witnesses compile for every T; negative witnesses fail with E0277
"""
from vlib import facts, rules, typeclosure, witness
from vlib.report import Run
from vlib import controls

PUBLIC_VALUE_TYPES = ["crate::arena::Arena", "crate::node::Node", "crate::id::NodeId"]


def main(tier):
    run = Run("C18", tier, level="proof")
    run.rule = ("obligation = one compile-time fact (attribute, absence of unsafe/static/interior-mutability in the type "
                "closure of each public type, one type-level witness); non-trivial = distinct fact kinds")
    prog = facts.load("dev", None)
    run.extra["facts"] = prog.info
    j = prog.j
    # R1
    forbid = [a for a in j["crate_attrs"] if "forbid" in a and "unsafe_code" in a]
    run.ob("R1-forbid-unsafe", "#![forbid(unsafe_code)] present on crate root", bool(forbid),
           key="R1|forbid(unsafe_code) missing", nontrivial="R1", sample=True,
           detail="crate attributes: %s" % [a[:80] for a in j["crate_attrs"]])
    # R2
    nb = 0
    for f in j["fns"]:
        nb += 1
        bad = []
        if f.get("unsafe"):
            bad.append("unsafe fn")
        if f.get("unsafe_blocks"):
            bad.append("%d unsafe block(s)" % f["unsafe_blocks"])
        run.ob("R2-no-unsafe", "no unsafe in %s" % f["key"], not bad, key="R2|unsafe in " + f["key"],
               detail=bad, loc=prog.loc(f["span"]), nontrivial="R2")
    for im in j["impls"]:
        # `#[derive(Clone)]` on Copy types emits a compiler-generated `unsafe impl TrivialClone` (automatically_derived)
        run.ob("R2-no-unsafe", "impl not unsafe", not im.get("unsafe") or im.get("derived"),
               key="R2|unsafe impl %s for %s" % (im.get("trait"), prog.tys(im["self_ty"])), loc=prog.loc(im["span"]))
    for tr in j["traits"]:
        run.ob("R2-no-unsafe", "trait not unsafe", not tr.get("unsafe"), key="R2|unsafe trait " + tr["path"])
    run.floor("MIR bodies scanned for unsafe", nb, 200)
    # R3: type closure of every public ADT
    npub = 0
    for adt in j["adts"]:
        if adt["vis"] != "pub":
            continue
        npub += 1
        for v in adt["variants"]:
            for fld in v["fields"]:
                for (kind, s, path) in typeclosure.closure(prog, fld["ty"]):
                    ok = kind in ("prim", "param", "ref")
                    # `&mut` is allowed only in the formatter adaptor types (not public)
                    run.ob("R3-plain-state", "%s.%s stores %s %s" % (adt["path"], fld["name"], kind, s), ok,
                           key="R3|%s.%s stores %s %s" % (adt["path"], fld["name"], kind, s),
                           detail={"path": list(path)}, loc=prog.loc(adt["span"]), nontrivial="R3:" + kind,
                           sample=(adt["path"].endswith("Arena")))
    run.floor("public ADTs whose state closure was walked", npub, 15)
    # all ADTs (also private): no interior mutability anywhere in the crate's own types
    for adt in j["adts"]:
        for v in adt["variants"]:
            for fld in v["fields"]:
                for (kind, s, path) in typeclosure.closure(prog, fld["ty"]):
                    if kind == "extern_adt":
                        deny = any(x in s for x in ("cell::", "sync::atomic", "sync::Mutex", "sync::RwLock", "sync::Once",
                                                    "rc::Rc", "sync::Arc", "lazy", "thread_local"))
                        allow_fmt = s.startswith("core::fmt::Formatter")
                        run.ob("R3-no-interior-mutability", "%s.%s: %s" % (adt["path"], fld["name"], s),
                               allow_fmt or (not deny and adt["vis"] != "pub"),
                               key="R3|%s.%s contains %s" % (adt["path"], fld["name"], s), loc=prog.loc(adt["span"]))
    # R4 statics / thread locals
    for s in j["statics"]:
        run.ob("R4-no-shared-mutable-statics", "static %s" % s["path"], False,
               key="R4|static item " + s["path"], loc=prog.loc(s["span"]),
               detail="the crate has no statics today; any static is shared state visible to all threads")
    tl = 0
    for f in prog.bodies():
        for bi, si, s in prog.stmts(f):
            if s["k"] == "assign" and s["rv"]["k"] == "threadlocal":
                tl += 1
                run.ob("R4-no-thread-local", "thread-local access", False, key="R4|thread_local in " + f["key"],
                       loc=prog.loc(s.get("span")))
    run.ob("R4-no-shared-mutable-statics", "no statics and no thread-local accesses in the crate",
           not j["statics"] and tl == 0, key="R4|statics", nontrivial="R4", sample=True)
    # R5: read API takes &Arena only: every pub fn whose inputs mention Arena by `&mut` is a mutator;
    # traversal constructors and accessors must not be among them.
    readers = [k for k in prog.fns if any(k.endswith("::" + n) for n in (
        "ancestors", "predecessors", "preceding_siblings", "following_siblings", "children", "reverse_children",
        "descendants", "traverse", "reverse_traverse", "get", "count", "is_empty", "iter", "as_slice", "capacity",
        "get_node_id", "get_node_id_at", "is_removed", "next_traverse", "prev_traverse", "debug_pretty_print", "par_iter"))
        and prog.fns[k]["vis"] == "pub"]
    for k in readers:
        f = prog.fns[k]
        muts = [prog.tys(i) for i in f.get("inputs", []) if prog.ty(i)["k"] == "ref" and prog.ty(i)["mut"]
                and ("Arena" in prog.tys(i) or "Node<" in prog.tys(i))]
        run.ob("R5-readers-take-shared-ref", "%s takes no &mut Arena/Node" % k, not muts,
               key="R5|reader takes &mut: " + k, detail=muts, nontrivial="R5")
    run.floor("reader entry points checked", len(readers), 22)
    # R6: witnesses
    w = witness.run(("par_iter",))
    if w["repo_build_failed"]:
        raise facts.BuildFailed("indextree does not build for the witness crate", w["log"][-2000:])
    ngen, nneg = witness.count_generic_witnesses()
    run.ob("R6-witness", "witness crate (generic Send/Sync/Freeze/Clone/Eq functions, %d assertions) type-checks for every T" % ngen,
           w["lib_compiles"], key="R6|generic witnesses do not type-check", detail=w["log"][-3000:], nontrivial="R6+", sample=True)
    for name, res in w["tests"]:
        short = name.split(" - ")[1] if " - " in name else name
        run.ob("R6-witness", "doc-test %s" % name, res == "ok", key="R6|witness " + short.split(" ")[0] + (" compile_fail" if "compile fail" in name else " twin"),
               detail=w["log"][-3000:], nontrivial="R6-" + ("neg" if "compile fail" in name else "twin"))
    run.floor("E3 doc-test witnesses run", len(w["tests"]), 16)
    run.floor("E3 generic assertions", ngen, 44)
    run.extra["witness"] = {"passed": w["passed"], "failed": w["failed"], "generic_assertions": ngen, "compile_fail": nneg}
    controls.selftest(run, ['unsafe block', 'unsafe impl', 'unsafe trait', 'static item', 'thread-local access', 'interior mutability in a field', 'raw pointer in a field'])
    run.assumptions += ["rayon's slice par_iter visits each element once and only reads (trusted)",
                        "payload type T's own Send/Sync impls are honest (unsafe impls are the user's obligation)"]
    return run.finish()
