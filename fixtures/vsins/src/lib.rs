//! Positive controls: a tiny crate that commits every sin the zero-count rules look for.
//! The checks load its facts on every run and fail as a TOOL FAULT if a detector does not fire here.
#![allow(dead_code, unused)]
use std::cell::Cell;
use std::sync::atomic::{AtomicUsize, Ordering};

pub static mut COUNTER: usize = 0;
static HITS: AtomicUsize = AtomicUsize::new(0);

pub struct Slot<T> {
    pub data: T,
    pub hits: Cell<usize>,
    pub raw: *const T,
}

pub struct Store<T> {
    slots: Vec<Slot<T>>,
}

pub unsafe trait Marker {}
unsafe impl<T> Marker for Store<T> {}

impl<T> Store<T> {
    pub fn relocate(&mut self, i: usize) -> Slot<T> {
        self.slots.swap_remove(i)
    }

    pub fn leak(&mut self, s: Slot<T>) {
        std::mem::forget(s);
    }

    pub fn peek(&self, i: usize) -> &T {
        unsafe { &self.slots.get_unchecked(i).data }
    }

    pub fn address(&self, i: usize) -> usize {
        &self.slots[i] as *const Slot<T> as usize
    }

    pub fn now(&self) -> u128 {
        HITS.fetch_add(1, Ordering::Relaxed);
        std::time::Instant::now().elapsed().as_nanos()
    }

    pub fn recurse(&self, n: usize) -> usize {
        if n == 0 { 0 } else { self.recurse(n - 1) + 1 }
    }

    #[cfg(feature = "nonexistent")]
    pub fn never(&self) {}
}

thread_local! {
    static TL: Cell<u8> = Cell::new(0);
}

pub fn touch_tl() -> u8 {
    TL.with(|c| c.get())
}
