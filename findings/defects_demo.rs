use indextree::Arena;
use std::panic::{catch_unwind, AssertUnwindSafe};

#[test]
fn d2_prepend_current_first_child() {
    let mut arena = Arena::new();
    let p = arena.new_node(0);
    let a = arena.new_node(1);
    let b = arena.new_node(2);
    p.append(a, &mut arena);
    p.append(b, &mut arena);
    // `a` already is the first child of `p`: a no-op that must succeed
    let r = catch_unwind(AssertUnwindSafe(|| p.checked_prepend(a, &mut arena)));
    assert!(matches!(r, Ok(Ok(()))), "prepend of current first child: {:?}", r.map(|x| x.is_ok()));
}

#[test]
fn d3a_insert_after_parent_panics_after_mutation() {
    let mut arena = Arena::new();
    let g = arena.new_node(0);
    let p = arena.new_node(1);
    let c = arena.new_node(2);
    g.append(p, &mut arena);
    p.append(c, &mut arena);
    let snap = arena.clone();
    let r = catch_unwind(AssertUnwindSafe(|| c.checked_insert_after(p, &mut arena)));
    assert!(matches!(r, Ok(Err(_))), "must be refused with an error, got panic={}", r.is_err());
    assert!(arena == snap, "arena must be unchanged");
}

#[test]
fn d3b_insert_after_grandparent_creates_cycle() {
    let mut arena = Arena::new();
    let g = arena.new_node(0);
    let p = arena.new_node(1);
    let c = arena.new_node(2);
    g.append(p, &mut arena);
    p.append(c, &mut arena);
    let r = c.checked_insert_after(g, &mut arena);
    assert!(r.is_err(), "inserting the grandparent next to its grandchild must be refused");
}

#[test]
fn d4_append_value_on_removed_parent() {
    let mut arena = Arena::new();
    let a = arena.new_node(0);
    let b = arena.new_node(1);
    a.remove(&mut arena);
    let _ = b;
    let snap = arena.clone();
    let r = catch_unwind(AssertUnwindSafe(|| a.append_value(7, &mut arena)));
    assert!(r.is_err(), "append_value on a removed node must panic");
    assert!(arena == snap, "arena must be unchanged by the refused call");
}

#[test]
fn d5_remove_subtree_leaves_links() {
    let mut arena = Arena::new();
    let r = arena.new_node(0);
    let a = arena.new_node(1);
    let b = arena.new_node(2);
    let c = arena.new_node(3);
    r.append(a, &mut arena);
    a.append(b, &mut arena);
    a.append(c, &mut arena);
    a.remove_subtree(&mut arena);
    for id in [a, b, c] {
        let n = &arena[id];
        assert!(n.is_removed());
        assert!(n.parent().is_none() && n.first_child().is_none() && n.last_child().is_none()
            && n.previous_sibling().is_none() && n.next_sibling().is_none(), "removed node {} keeps links: {}", id, n);
    }
}

#[test]
fn d6_rev_of_siblings_of_parentless_node() {
    let mut arena = Arena::new();
    let a = arena.new_node(0);
    let b = arena.new_node(1);
    a.insert_after(b, &mut arena); // two top-level siblings
    let fwd: Vec<_> = a.following_siblings(&arena).collect();
    let mut back: Vec<_> = a.following_siblings(&arena).rev().collect();
    back.reverse();
    assert_eq!(fwd, back, "rev() must yield the forward sequence reversed");
    let fwd: Vec<_> = b.preceding_siblings(&arena).collect();
    let mut back: Vec<_> = b.preceding_siblings(&arena).rev().collect();
    back.reverse();
    assert_eq!(fwd, back);
}

#[test]
fn d1_id_reissued_after_stamp_wrap() {
    let mut arena = Arena::new();
    let first = arena.new_node(0u32);
    let mut ids = std::collections::HashSet::new();
    ids.insert(first);
    let mut cur = first;
    for i in 0..40000u32 {
        cur.remove(&mut arena);
        assert!(first.is_removed(&arena) || i == 0 && false, "is_removed(first) flipped back at cycle {}", i);
        let n = arena.new_node(i);
        assert!(ids.insert(n), "id {:?} issued twice (cycle {})", n, i);
        cur = n;
    }
}
