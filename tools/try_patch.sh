#!/bin/bash
# usage: tools/try_patch.sh <patch.diff> <ID> [<ID> ...]   -- run checks against a scratch copy of /repo with the patch applied (copy removed afterwards)
set -u
patch="$1"; shift
d=$(mktemp -d /tmp/vtry-XXXXXX)
trap 'rm -rf "$d"' EXIT
cp -rL /repo/indextree /repo/indextree-macros /repo/Cargo.toml /repo/Cargo.lock "$d"/ 2>/dev/null
rm -rf "$d"/indextree/target "$d"/target
(cd "$d" && patch -p1 -s < "$patch") || { echo "patch failed"; exit 3; }
for id in "$@"; do
  out=$(VERIF_REPO="$d" "$(dirname "$(readlink -f "$0")")/../check" "$id" 2>&1)
  rc=$?
  echo "$id exit=$rc $(echo "$out" | grep -E '^\s+key:' | head -4 | cut -c1-220 | tr '\n' ' ')"
  [ $rc -gt 1 ] && echo "$out" | tail -n 6 | cut -c1-300
done
