#!/usr/bin/env python3
"""Regenerates MANIFEST.json from the table below (single source of truth) and validates it."""
import json, os, sys
HERE = os.path.dirname(os.path.dirname(os.path.abspath(__file__)))

CHECKS = {
    # pid: (level category, level text, design_ref, level_note, technique)
    "C18": ("proof",
            "All clauses are compile-time facts: forbid(unsafe_code) + no unsafe item in any body; the state-type closure of "
            "every public type is plain owned data; no statics/thread-locals; generic Send/Sync/Freeze witnesses type-check for "
            "every T and the negative witnesses fail with E0277 (each with a compiling twin). With these, &Arena is immutable "
            "shared data and the language's aliasing rules give schedule-independence.",
            "5/C18", "Trusts rustc's type checker and auto-trait rules, rayon's slice par_iter, and the payload type's own Send/Sync impls.",
            "type-level witnesses (compile_fail + generic fns) and custom rules over the rustc-exported type-checked program"),
}

CHECKS["C17"] = ("proof",
    "Canonical MIR (types by definition path, no spans, constants by content) of every function, every ADT definition and every "
    "trait impl of the base configuration (no_std, no features) is identical in every other feature subset of the same profile; "
    "surplus items belong to enumerated additive families enabled by their feature. Identical program => identical behaviour. "
    "par_iter: body is one resolved rayon par_iter call on self.nodes, the place iter() walks.",
    "5/C17", "Trusts rustc (same MIR => same behaviour), that core/alloc items behave the same under std, and rayon's slice iterator.",
    "cross-configuration canonical-MIR identity (translation-validation style, static) + origin rule")
CHECKS["C16"] = ("other",
    "By-construction conditions on the derived serde impls of the five state types in the deser configuration: both impls derived, no serde "
    "attributes, writer table == reader table == ADT field list (order, names, origins), plain field types, derived PartialEq. "
    "Round-trip equality then follows from serde's derive contract; no serialisation is executed.",
    "5/C16", "Trusts serde's derive and the data format for usize/i16/Option/Vec/enum tags, and T's own impls.",
    "writer/reader table agreement read from the MIR of the derived impls + attribute and type-closure rules")

E2NOTE = ("Trusted: rustc front end to MIR (opt-level 0), the exporter/interpreter in /verif, hand-written std models (Option/Result/Vec/NonZero/"
          "Iterator::any), axioms = consequences of J0-J7, assumption V (valid ids). Induction over call histories is the written argument of DESIGN 2.")
E2TECH = "path-sensitive abstract interpretation of rustc MIR over a shape domain (lazily materialised individuals, integrity constraints J, 3-valued ancestor predicate)"
CHECKS["C01"] = ("proof",
    "Inductive invariant: from every abstract pre-state consistent with J and V (all aliasing/liveness cases, neighbourhood materialised on demand, no "
    "bound on arena size) each entry point re-establishes every instance of J0/J1/J2 that mentions a written field, at every exit incl. panics. "
    "Entries: detach, the four checked inserts, append_value, new_node, remove (child chain via a verified cursor-loop summary = quantified write), "
    "remove_subtree (loop-invariant mode: prefix + generic iteration + exit).",
    "5/C01", E2NOTE + " For remove_subtree J is proved as a loop invariant (stronger than needed at exit).", E2TECH)
CHECKS["C02"] = ("proof",
    "J3 preserved: every changed parent edge leads into a pre-state ancestor chain free of re-parented nodes (ancestor facts from the summarised "
    "ancestors().any loop or from J); call graph acyclic; every natural loop in reachable code is accounted for with a termination argument.",
    "5/C02", E2NOTE + " Sibling-order acyclicity follows from the model equivalence of C03. Iterator finiteness is the written argument from C09's step tables + J3.", E2TECH + " + call-graph/loop inventory rules")
CHECKS["C03"] = ("proof",
    "For every pre-state case where the request is possible, the implementation returns Ok and its post-heap equals the reference model gap/place on every "
    "field either touches (extensional equality incl. frame); no-op re-inserts are ordinary cases; append_value's arena part is new_node's by construction.",
    "5/C03", E2NOTE, E2TECH + " + extensional comparison with a reference model")
CHECKS["C05"] = ("proof",
    "Exit of each checked insert compared with the specification table (self / removed / ancestor / possible) in every case, on dev and release MIR; refusals "
    "(Err or panic) must leave an empty overlay; no panic reachable in the possible row (all debug assertions and internal expects are evaluated on the symbolic heap); "
    "unchecked forms are exactly checked_* + expect (E1) and are interpreted too in the thorough tier.",
    "5/C05", E2NOTE, E2TECH + " + wrapper rule")
CHECKS["C12"] = ("proof",
    "Refusal of every insert/append_value with a removed id with empty overlay (incl. len and free list), J5/J0 re-checked at every exit, recycled/new node starts with no links.",
    "5/C12", E2NOTE, E2TECH)
CHECKS["C04"] = ("proof",
    "remove(x): post-heap == reference model in every case (children of unbounded number handled by the verified rewrite_parents loop summary and a generic child), "
    "exactly x freed. remove_subtree(x): prefix == detach(x); step table of one generic loop iteration decided by E2 (inner node: descend without writing; leaf: effect == "
    "remove(leaf), cursor' = parent); exit writes nothing; the written induction in the evidence turns the table into 'exactly the subtree is deleted'.",
    "5/C04", E2NOTE + " The induction over iterations is a fixed written argument (evidence.written_induction_remove_subtree), not re-derived per run.", E2TECH + " + loop-invariant (generic iteration) analysis")

CHECKS["C06"] = ("proof",
    "The generation arithmetic (as_removed, reuseable, reuse) is read from MIR as piecewise-affine functions over the whole i16 range, symbolically: removed stamps are negative, "
    "recycled stamps are strictly larger than the previous live stamp and stay in range, exhausted slots are retired; is_removed methods are decision tables; writer/caller "
    "inventories show no other code touches a stamp. The 'never reissued / stays removed' conclusion is the two-line induction in the evidence.",
    "5/C06", E2NOTE, "abstract interpretation of MIR with an affine/interval numeric domain + who-may-write/who-may-call rules")
CHECKS["C07"] = ("proof",
    "free_node / new_node / clear compared, case by case over the materialised free-list shape and stamp piece, with the FIFO model (append non-member at tail, pop head, retire "
    "exhausted slots, push only when the list is empty); frame: no other node written; the only length-changing Vec calls on the slot vector are that push and that clear.",
    "5/C07", E2NOTE + " free_node is analysed under its internal precondition (node already unlinked), which C04 establishes at its only call site.", E2TECH + " (free-list part of the heap domain) + call inventory")

CHECKS["C09"] = ("proof",
    "Decision-table equivalence: for every iterator constructor and next body, and for NodeEdge::next_traverse/prev_traverse, (yield, next cursor) computed by E2 from a generic "
    "state under J equals the documented step in every case (cursor/edge variant x aliasing with the root x links read); the two edge steps are mutually inverse; Descendants is "
    "find_map over its Traverse with the closure table Start->Some, End->None. The meaning of iterating the tables (pre-order, balanced Start/End, reversal) is the written argument.",
    "5/C09", E2NOTE + " The run decides that the code implements the tables; that the tables define the documented sequences is argued on paper (evidence.written_argument).", E2TECH + " as per-step decision tables")
CHECKS["C10"] = ("proof",
    "Double-ended state machine: constructors establish the cursor-pair invariant (front = documented start, back = end of the chain; both or none), next/next_back rows for head == tail, "
    "head != tail and exhausted states match the table; the back cursor of a parentless node is obtained by a verified pure chain walk (chain-end loop summary). Induction on the "
    "remaining length is the written argument.",
    "5/C10", E2NOTE, E2TECH + " as state-machine decision tables")

CHECKS["C11"] = ("proof",
    "Decision tables of every lookup path over the argument cases (id of a live / removed slot, beyond the end; node inside / outside the arena) computed by E2, including "
    "get_node_id through a slice-layout address model; count/iter/as_slice/is_empty/Display shown by origin rules to read exactly the slot vector / index1.",
    "5/C11", E2NOTE + " Address model: element i at start + i*size_of, distinct allocations disjoint (language guarantees).", E2TECH + " (numeric/address domain) + origin rules")
CHECKS["C13"] = ("proof",
    "Purity scan of all MIR bodies (no ambient state, addresses only subtracted), derived Clone/PartialEq over a plain-data type closure, and field-by-field comparison (all Arena fields) of "
    "new/default/with_capacity/clear results computed by E2; capacity is read only by capacity(); with_capacity/reserve are single Vec calls that forward their argument.",
    "5/C13", E2NOTE + " Determinism additionally rests on C18 (no interior mutability) and on std's Vec being deterministic.", "purity/who-may-call rules + field-coverage comparison of abstractly evaluated constructors")
CHECKS["C08"] = ("proof",
    "No relocating operation is ever applied to node slots; Node.data is written only in free_node/Node::reuse (and built in Node::new) and every dynamic write is classified by E2; "
    "no leak/forget/unsafe primitive exists, so ownership gives exactly-once drop, at free_node of that node (payload drops == nodes removed in every E2 record) or with the Vec; "
    "every other entry leaves data/stamp untouched (frame).",
    "5/C08", E2NOTE + " Exactly-once drop relies on Rust's ownership semantics given the absence of unsafe/leak primitives (C18).", "deny-list call rules + field-site inventory + frame/drop events of the abstract interpreter")

CHECKS["C14"] = ("other",
    "Step tables decided by abstract interpretation of the MIR, each compared with a reference: (6) the indent writer as a transducer (open / close / one line fragment, from every abstract "
    "pre-state: indent stack of any depth as a summarised run + explicit top, arbitrary input string as text / line break / rest; emitted text, post-state, no panic), (7) the driver (fmt prefix, "
    "fmt loop body with the dispatch function stubbed, dispatch function per traversal edge incl. last-sibling flag), (5) format modes per fmt body. When (6)/(7) meet an unmodelled construct "
    "they give no verdict (NOTE + undecided_clauses in the evidence) and the structural origin/dominance clauses (1)-(4) take over. The induction that composes the step tables over the Euler "
    "tour into the whole text is written, not machine-checked.",
    "5/C14, 11.7, 11.8", "Relies on C09 for what the Traverse yields; payload Display/Debug impls are arbitrary callers of write_str.",
    "abstract interpretation of MIR (summarised sequences, symbolic strings, generic-iteration probes) against reference transducers + origin/dominance rules over MIR")
CHECKS["C15"] = ("other",
    "Partial claim, structural necessary conditions only: the generated code interpolates the arena and root expressions exactly once each (arena first), each node expression exactly once, "
    "constructs each action kind at one site, names only append_value/new_node/get/parent, the stack discipline and Append/Nest/Parent pairing of the flattening loop, the cursor assignments "
    "of the three templates, and that no other function emits tokens. That the built tree's nesting and order equal the literal for every input (the induction over the flattening "
    "stack machine) is NOT machine-checked and not claimed.",
    "5/C15", "quote!/syn trusted; the emitted API calls are covered by C03/C07.", "origin and call-site rules over the proc-macro's MIR, identifier constants read from quote! expansions")

PENDING = "check under construction in this build round (DESIGN.md section 10); not claimed until its engine part exists"

NOT_APPLICABLE = {}


def main():
    props = [json.loads(l)["id"] for l in open(os.path.join(HERE, "properties.jsonl"))]
    checks = []
    for pid in props:
        if pid not in CHECKS:
            continue
        cat, text, ref, note, tech = CHECKS[pid]
        checks.append({
            "property_id": pid,
            "quick_cmd": "./check %s --tier quick" % pid,
            "thorough_cmd": "./check %s --tier thorough" % pid,
            "evidence_file": "evidence/%s.json" % pid,
            "replay_cmd_template": "./check %s --explain {path}" % pid,
            "engine": "static",
            "level_claimed": {"category": cat, "text": text, "design_ref": "DESIGN.md section " + ref},
            "level_note": note,
            "technique": tech,
        })
    na = []
    for pid in props:
        if pid not in CHECKS:
            na.append({"property_id": pid, "reason": NOT_APPLICABLE.get(pid, PENDING)})
    m = {
        "version": 1,
        "setup_cmd": "./setup.sh",
        "hooks": {
            "guard": "indextree_verif",
            "enable": "none needed: the analysis reads the compiler's own view of /repo (rustc_private driver via RUSTC_WORKSPACE_WRAPPER); no source hooks",
            "baseline_off_cmd": "cd /repo && cargo test --workspace --no-fail-fast --offline",
            "source_commits": [],
            "add_only": True,
        },
        "engines": [
            {"name": "E0 mirx", "path": "engines/mirx", "serves_properties": props,
             "kind_free_text": "rustc_private driver exporting ADTs, impls and MIR with resolved callees as JSON, per profile x feature set"},
            {"name": "E1 rules", "path": "vlib/rules.py", "serves_properties": props,
             "kind_free_text": "call graph, CFG/dominators, field-site index, origin (value-flow) rules over the exported program"},
            {"name": "E2 absint", "path": "vlib/absint", "serves_properties": ["C01", "C02", "C03", "C04", "C05", "C06", "C07", "C08", "C09", "C10", "C11", "C12", "C13"],
             "kind_free_text": "path-sensitive abstract interpreter over MIR with a shape domain (lazily materialised individuals, integrity constraints J)"},
            {"name": "E3 witness", "path": "witness", "serves_properties": ["C18", "C13"],
             "kind_free_text": "compile_fail,E0xxx doc-tests with compiling twins + generic witness functions (cargo +nightly test --doc)"},
            {"name": "E4 xcfg", "path": "vlib/xcfg.py", "serves_properties": ["C17"],
             "kind_free_text": "canonical-MIR identity of every function across the 16 feature subsets x 2 profiles"},
        ],
        "checks": checks,
        "not_applicable": na,
        "notes": "Static analysis only. Every check exports facts from /repo's current working tree (content-addressed cache), "
                 "never runs indextree. exit 2 = tool fault / repo does not build (no verdict).",
    }
    with open(os.path.join(HERE, "MANIFEST.json"), "w") as fh:
        json.dump(m, fh, indent=1)
    try:
        import jsonschema
        jsonschema.validate(m, json.load(open("/root/.vp/MANIFEST.schema.json")))
        print("MANIFEST.json valid: %d checks, %d not_applicable" % (len(checks), len(na)))
    except ImportError:
        print("jsonschema not available; written without validation")


if __name__ == "__main__":
    main()
