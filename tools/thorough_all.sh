#!/bin/bash
cd /verif
./setup.sh > /dev/null 2>&1
for p in C01 C02 C03 C04 C05 C06 C07 C08 C09 C10 C11 C12 C13 C14 C15 C16 C17 C18; do
  s=$(date +%s)
  VERIF_NO_SELFTEST=1 ./check $p --tier thorough 2>&1 | grep -v "Conda\|condarc\|Permission" | tail -n 1
  echo "   ($p took $(( $(date +%s) - s )) s)"
done
