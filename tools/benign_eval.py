#!/usr/bin/env python3
"""Run every check against a behaviour-preserving change written by an independent sub-agent: all checks must stay silent.

usage: tools/benign_eval.py <dir containing patch.diff and meta.json> <name> [--props C01,C05,...] [--novalidate]
Steps (in a scratch copy of /repo outside /repo and /verif, removed afterwards):
  1. the patch applies, the workspace builds (default, all features, no default features) and the whole existing suite passes with it
  2. every claimed property check is run against the patched copy (VERIF_REPO=<copy>); exit 0 expected everywhere
The change is kept as /verif/benign/<name>/ (patch.diff, meta.json with the verdict of every check).  A check that exits 1 on such a
change is a false alarm unless reading the patch shows that it does change behaviour (then it is recorded as `not_benign` with the reason).
"""
import argparse, json, os, shutil, subprocess, sys, tempfile, time
from concurrent.futures import ThreadPoolExecutor

HERE = os.path.dirname(os.path.dirname(os.path.abspath(__file__)))
REPO = "/repo"


def sh(cmd, cwd, env=None, timeout=1800):
    e = dict(os.environ)
    e["CARGO_NET_OFFLINE"] = "true"
    if env:
        e.update(env)
    r = subprocess.run(cmd, cwd=cwd, env=e, stdout=subprocess.PIPE, stderr=subprocess.STDOUT, text=True, timeout=timeout)
    return r.returncode, r.stdout


def main():
    ap = argparse.ArgumentParser()
    ap.add_argument("src")
    ap.add_argument("name")
    ap.add_argument("--props")
    ap.add_argument("--novalidate", action="store_true")
    ap.add_argument("--jobs", type=int, default=4)
    a = ap.parse_args()
    manifest = json.load(open(os.path.join(HERE, "MANIFEST.json")))
    props = a.props.split(",") if a.props else [c["property_id"] for c in manifest["checks"]]
    patch = os.path.abspath(os.path.join(a.src, "patch.diff"))
    mp = os.path.join(a.src, "meta.json")
    meta = json.load(open(mp)) if os.path.exists(mp) else {}
    d = tempfile.mkdtemp(prefix="vben-", dir="/tmp")
    ran = []
    ok = True
    try:
        for item in ("indextree", "indextree-macros", "Cargo.toml", "Cargo.lock"):
            s = os.path.join(REPO, item)
            if os.path.isdir(s):
                shutil.copytree(s, os.path.join(d, item), ignore=shutil.ignore_patterns("target"))
            else:
                shutil.copy(s, os.path.join(d, item))
        rc, out = sh(["patch", "-p1", "-i", patch], d)
        ran.append("patch -p1 -> exit %d" % rc)
        if rc != 0:
            print("REJECT %s: patch does not apply\n%s" % (a.name, out[-800:]))
            return 1
        tgt = os.path.join(d, "target")
        if not a.novalidate:
            rc, out = sh(["cargo", "test", "--workspace", "--offline", "--no-fail-fast"], d, {"CARGO_TARGET_DIR": tgt})
            ran.append("patched tree: cargo test --workspace -> exit %d" % rc)
            if rc != 0:
                print("REJECT %s: existing suite fails with the patch\n%s" % (a.name, out[-1500:]))
                return 1
        shutil.rmtree(tgt, ignore_errors=True)
        results = {}

        def one(p):
            t0 = time.time()
            r = subprocess.run([os.path.join(HERE, "check"), p], stdout=subprocess.PIPE, stderr=subprocess.STDOUT, text=True, env=dict(os.environ, VERIF_REPO=d))
            keys = [l.strip()[5:] for l in r.stdout.splitlines() if l.strip().startswith("key: ")]
            return p, {"exit": r.returncode, "keys": keys[:6], "wall_s": round(time.time() - t0, 1), "tail": r.stdout[-600:] if r.returncode not in (0, 1) else ""}
        # the first check fills the facts/E2 cache for the others
        p0, r0 = one(props[0])
        results[p0] = r0
        with ThreadPoolExecutor(max_workers=a.jobs) as ex:
            for p, r in ex.map(one, props[1:]):
                results[p] = r
        alarms = sorted(p for p, v in results.items() if v["exit"] == 1)
        faults = sorted(p for p, v in results.items() if v["exit"] not in (0, 1))
        print("benign %s: %s%s" % (a.name, ("ALARMS %s" % alarms) if alarms else "all silent", (" tool faults: %s" % faults) if faults else ""))
        for p in alarms:
            print("   %s: %s" % (p, results[p]["keys"][:3]))
        for p in faults:
            print("   %s: %s" % (p, results[p]["tail"][-300:]))
        out_dir = os.path.join(HERE, "benign", a.name)
        os.makedirs(out_dir, exist_ok=True)
        if os.path.abspath(patch) != os.path.abspath(os.path.join(out_dir, "patch.diff")):
            shutil.copy(patch, os.path.join(out_dir, "patch.diff"))
        for v in results.values():
            v.pop("tail", None)
        meta.update({"name": a.name, "validated": not a.novalidate, "ran": ran, "checks": results, "alarms": alarms, "faults": faults,
                     "repo_head": subprocess.run(["git", "-C", REPO, "log", "--format=%h", "-1"], capture_output=True, text=True).stdout.strip()})
        json.dump(meta, open(os.path.join(out_dir, "meta.json"), "w"), indent=1)
    finally:
        shutil.rmtree(d, ignore_errors=True)
    return 0


if __name__ == "__main__":
    sys.exit(main())
