#!/usr/bin/env python3
"""Seeded-mutant self-test of the checkers (development + thorough tier).

Each mutant is a small textual patch to a scratch copy of /repo (outside /repo and /verif, removed afterwards).  For each
mutant the listed property checks must exit 1 (VIOLATION); a mutant whose anchor text no longer exists is skipped.
usage: tools/mutants.py [--only id,id] [--validate] [--props C01,C05] [--jobs N]
"""
import argparse, json, os, shutil, subprocess, sys, tempfile, time
from concurrent.futures import ThreadPoolExecutor

HERE = os.path.dirname(os.path.dirname(os.path.abspath(__file__)))
REPO = "/repo"

M = []


def mut(id, file, old, new, props, silent=False, note="", extra=()):
    M.append({"id": id, "file": file, "old": old, "new": new, "props": props, "silent": silent, "note": note, "extra": list(extra)})


REL = "indextree/src/relations.rs"
SIB = "indextree/src/siblings_range.rs"
IDR = "indextree/src/id.rs"
ARN = "indextree/src/arena.rs"
NOD = "indextree/src/node.rs"
TRV = "indextree/src/traverse.rs"
DPP = "indextree/src/debug_pretty_print.rs"
MAC = "indextree-macros/src/lib.rs"

mut("cn-drop-backlink", REL, "        arena[next].previous_sibling = previous;\n", "", ["C01", "C03"])
mut("cn-wrong-last", REL, "        // `previous` is the last child of the parent.\n        parent_last_child = previous;",
    "        parent_last_child = next;", ["C01", "C03"])
mut("dfs-no-take", SIB, "let prev_of_range = arena[self.first].previous_sibling.take();", "let prev_of_range = arena[self.first].previous_sibling;", ["C01", "C03"])
mut("rp-wrong-dir", SIB, "            child_opt = child_node.next_sibling;", "            child_opt = child_node.previous_sibling;", ["C01", "C04"])
mut("append-no-detach", IDR, "        new_child.detach(arena);\n        insert_with_neighbors(arena, new_child, Some(self), arena[self].last_child, None)",
    "        insert_with_neighbors(arena, new_child, Some(self), arena[self].last_child, None)", ["C03", "C05"])
mut("append-no-removed-check", IDR, "        if arena[self].is_removed() || arena[new_child].is_removed() {\n            return Err(NodeError::Removed);\n        }\n        if self.ancestors(arena).any(|ancestor| new_child == ancestor) {\n            return Err(NodeError::AppendAncestor);",
    "        if arena[self].is_removed() {\n            return Err(NodeError::Removed);\n        }\n        if self.ancestors(arena).any(|ancestor| new_child == ancestor) {\n            return Err(NodeError::AppendAncestor);", ["C12", "C05"])
mut("append-no-ancestor-check", IDR, "        if self.ancestors(arena).any(|ancestor| new_child == ancestor) {\n            return Err(NodeError::AppendAncestor);\n        }\n", "", ["C02", "C05"])
mut("insert-after-early-read", IDR, "        new_sibling.detach(arena);\n        let (next_sibling, parent) = {\n            let current = &arena[self];\n            (current.next_sibling, current.parent)\n        };",
    "        let (next_sibling, parent) = {\n            let current = &arena[self];\n            (current.next_sibling, current.parent)\n        };\n        new_sibling.detach(arena);", ["C03", "C05"])
mut("remove-swap-neighbours", IDR, "                .transplant(arena, parent, previous_sibling, next_sibling)", "                .transplant(arena, parent, next_sibling, previous_sibling)", ["C04", "C01"])
mut("remove-no-free", IDR, "        arena.free_node(self);\n        debug_assert!(arena[self].is_detached());", "        debug_assert!(arena[self].is_detached());", ["C04"])
mut("stamp-reuseable-ge", IDR, "        self.0 > i16::MIN", "        self.0 >= i16::MIN", ["C06"])
mut("stamp-asremoved-neg", IDR, "            -self.0 - 1\n", "            -self.0\n", ["C06"])
mut("reuse-skip-last-child", NOD, "        self.last_child = None;\n        self.data", "        self.data", [], silent=True, note="redundant once J5 holds: removed nodes have no links, so reuse need not clear them")
mut("reuse-skip-stamp", NOD, "        self.stamp.reuse();\n", "", ["C06"])
mut("pop-no-last-reset", ARN, "            if self.first_free_slot.is_none() {\n                self.last_free_slot = None;\n            }\n", "", ["C07"])
mut("free-no-reuseable-test", ARN, "        if stamp.reuseable() {", "        if true || stamp.reuseable() {", ["C07"], note="C06's O2 is conditional on reuseable(); that only reuseable slots are enqueued is C07's clause")
mut("free-link-from-head", ARN, "            if let Some(index) = self.last_free_slot {", "            if let Some(index) = self.first_free_slot {", ["C07"])
mut("new-node-always-push", ARN, "            let node = &mut self.nodes[index];\n            node.reuse(data);\n            (index, node.stamp)",
    "            let _ = index;\n            let index = self.nodes.len();\n            let node = Node::new(data);\n            let stamp = node.stamp;\n            self.nodes.push(node);\n            (index, stamp)", ["C07"])
mut("clear-keeps-first-free", ARN, "        self.first_free_slot = None;\n        self.last_free_slot = None;\n    }\n\n    /// Returns a slice", "        self.last_free_slot = None;\n    }\n\n    /// Returns a slice", ["C13", "C07"])
mut("get-node-id-at-no-filter", ARN, "            .filter(|n| !n.is_removed())\n", "", ["C11"])
mut("arena-get-refactor", ARN, "        self.nodes.get(id.index0())\n    }", "        let i = id.index0();\n        self.nodes.get(i)\n    }", [], silent=True)
mut("ancestors-wrong-step", TRV, "    Ancestors,\n    next = |node| node.parent,", "    Ancestors,\n    next = |node| node.previous_sibling.or(node.parent),", ["C09"])
mut("traverse-no-stop", TRV, "        if next == NodeEdge::End(self.root) {\n            return None;\n        }\n        next.next_traverse(self.arena)", "        next.next_traverse(self.arena)", ["C09"])
mut("next-traverse-end-start", TRV, "                    None => node.parent.map(NodeEdge::End),", "                    None => node.parent.map(NodeEdge::Start),", ["C09"])
mut("children-tail-first", TRV, "DoubleEndedIter::new(arena, arena[node].first_child, arena[node].last_child)", "DoubleEndedIter::new(arena, arena[node].first_child, arena[node].first_child)", ["C10"])
mut("ppn-last-from-prev", DPP, "let is_last_sibling = traverser.arena()[id].next_sibling().is_none();", "let is_last_sibling = traverser.arena()[id].previous_sibling().is_none();", ["C14"])
mut("ibs-leading", DPP, '            (false, true) => "|--",\n            (false, false) => "|",', '            (false, true) => "|-",\n            (false, false) => "|",', ["C14"])
mut("tree-arena-twice", MAC, "let mut __arena: &mut ::indextree::Arena<_> = #arena;", "let _ = #arena; let mut __arena: &mut ::indextree::Arena<_> = #arena;", ["C15"])
mut("tree-children-not-reversed", MAC, "        stack.extend(children.into_iter().map(Either::Left).rev());", "        stack.extend(children.into_iter().map(Either::Left));", ["C15"])
mut("tree-marker-after-children", MAC, "        stack.push(Either::Right(NestingLevelMarker));\n        action_buffer.push(Action::Nest);\n        stack.extend(children.into_iter().map(Either::Left).rev());",
    "        action_buffer.push(Action::Nest);\n        stack.extend(children.into_iter().map(Either::Left).rev());\n        stack.push(Either::Right(NestingLevelMarker));", ["C15"])
mut("tree-no-marker", MAC, "        stack.push(Either::Right(NestingLevelMarker));\n", "", ["C15"], note="the nesting marker is never pushed: no Parent is ever emitted (the stack still is a node-or-marker stack by type, so clauses (5)/(6) apply)")
mut("tree-parent-no-assign", MAC, "                __node = __temp;\n", "", ["C15"], note="found by the automut campaign: the Parent template no longer moves the cursor up")
mut("append-ignores-error", IDR, """        self.checked_append(new_child, arena)
            .expect("Preconditions not met: invalid argument");""", """        let _ = self.checked_append(new_child, arena);""", ["C05"], note="the panicking wrapper swallows the refusal")
mut("append-value-own-push", IDR, "        let new_child = arena.new_node(value);", "        let new_child = arena.push_node(value);", ["C03", "C07"],
    extra=[(ARN, "    pub(crate) fn free_node(&mut self, id: NodeId) {", """    pub(crate) fn push_node(&mut self, data: T) -> NodeId {
        let index = self.nodes.len();
        let node = Node::new(data);
        let stamp = node.stamp;
        self.nodes.push(node);
        let next_index1 = NonZeroUsize::new(index.wrapping_add(1)).expect("Too many nodes in the arena");
        NodeId::from_non_zero_usize(next_index1, stamp)
    }

    pub(crate) fn free_node(&mut self, id: NodeId) {""")], note="append_value allocates through a path of its own that never recycles a removed slot")
mut("rf-ptr-range-backport", ARN, '        let nodes_range = self.nodes.as_ptr_range();\n        let p = node as *const Node<T>;\n\n        if !nodes_range.contains(&p) {\n            return None;\n        }\n\n        let node_index = (p as usize - nodes_range.start as usize) / mem::size_of::<Node<T>>();', '        let start = self.nodes.as_ptr();\n        let end = start.wrapping_add(self.nodes.len());\n        let p = node as *const Node<T>;\n\n        if p < start || p >= end {\n            return None;\n        }\n\n        let node_index = (p as usize - start as usize) / mem::size_of::<Node<T>>();', [], silent=True, note="get_node_id without as_ptr_range/contains: start..start+len spelled out (benign R4d-2/R5d-2)")
mut("ptr-range-backport-le", ARN, '        let nodes_range = self.nodes.as_ptr_range();\n        let p = node as *const Node<T>;\n\n        if !nodes_range.contains(&p) {\n            return None;\n        }\n\n        let node_index = (p as usize - nodes_range.start as usize) / mem::size_of::<Node<T>>();', '        let start = self.nodes.as_ptr();\n        let end = start.wrapping_add(self.nodes.len());\n        let p = node as *const Node<T>;\n\n        if p <= start || p >= end {\n            return None;\n        }\n\n        let node_index = (p as usize - start as usize) / mem::size_of::<Node<T>>();', ["C11"], note="the same back-port with `p <= start`: the node in slot 0 is no longer found")
mut("rf-rewrite-parents-lag", SIB, '        let mut child_opt = Some(self.first);\n        while let Some(child) = child_opt {\n            if Some(child) == new_parent {\n                // Attempt to set the node itself as its parent.\n                return Err(ConsistencyError::ParentChildLoop);\n            }\n            let child_node = &mut arena[child];\n            child_node.parent = new_parent;\n            child_opt = child_node.next_sibling;\n        }\n', '        let mut child_opt = Some(self.first);\n        let mut last_visited = self.first;\n        while let Some(child) = child_opt {\n            if Some(child) == new_parent {\n                // Attempt to set the node itself as its parent.\n                return Err(ConsistencyError::ParentChildLoop);\n            }\n            let child_node = &mut arena[child];\n            child_node.parent = new_parent;\n            child_opt = child_node.next_sibling;\n            last_visited = child;\n        }\n        debug_assert_eq!(last_visited, self.last, "the sibling chain from `first` must end at `last`");\n', [], silent=True, note="rewrite_parents remembers the last visited child and asserts it is self.last (benign R1d-3)")
mut("rewrite-parents-lag-wrong", SIB, '        let mut child_opt = Some(self.first);\n        while let Some(child) = child_opt {\n            if Some(child) == new_parent {\n                // Attempt to set the node itself as its parent.\n                return Err(ConsistencyError::ParentChildLoop);\n            }\n            let child_node = &mut arena[child];\n            child_node.parent = new_parent;\n            child_opt = child_node.next_sibling;\n        }\n', '        let mut child_opt = Some(self.first);\n        let mut last_visited = self.first;\n        while let Some(child) = child_opt {\n            if Some(child) == new_parent {\n                // Attempt to set the node itself as its parent.\n                return Err(ConsistencyError::ParentChildLoop);\n            }\n            let child_node = &mut arena[child];\n            child_node.parent = new_parent;\n            child_opt = child_node.next_sibling;\n            last_visited = child;\n        }\n        debug_assert_eq!(last_visited, self.first, "the sibling chain from `first` must end at `last`");\n', ["C04"], note="the same with the assertion against self.first: remove() of a node with two children panics in debug builds")
mut("stamp-by-value-not-stored", ARN, "        node.stamp.as_removed();\n        let stamp = node.stamp;", "        let stamp = node.stamp.removed();", ["C07"],
    extra=[(IDR, "    pub fn as_removed(&mut self) {\n        debug_assert!(!self.is_removed());\n        self.0 = if self.0 < i16::MAX {", "    pub fn removed(self) -> Self {\n        debug_assert!(!self.is_removed());\n        NodeStamp(if self.0 < i16::MAX {"),
           (IDR, "            i16::MIN\n        };\n    }", "            i16::MIN\n        })\n    }")],
    note="by-value removal transition (benign R3d-1) whose result free_node forgets to store: the freed slot keeps its live stamp")
mut("new-pub-link-writer", IDR, "    pub fn remove_subtree<T>(self, arena: &mut Arena<T>) {", """    /// Forgets the parent of this node.
    pub fn orphan<T>(self, arena: &mut Arena<T>) {
        arena[self].parent = None;
    }

    pub fn remove_subtree<T>(self, arena: &mut Arena<T>) {""", ["C01"], note="a new public mutator that writes a link outside the analysed operations")
mut("tree-prune-nest", MAC, ".map(|last| last.kind == ActionKind::Parent)", ".map(|last| last.kind == ActionKind::Parent || last.kind == ActionKind::Nest)", ["C15"],
    note="the useless-action pruning also drops a trailing Nest")
mut("rf-tree-rename-cursor", MAC, "        let mut __node: ::indextree::NodeId = __root_node;", "        let mut __cur: ::indextree::NodeId = __root_node;", [], silent=True,
    extra=[(MAC, "__node", "__cur"), (MAC, "__last", "__prev_added")], note="consistent rename of the generated cursor variables")
mut("rf-tree-parent-direct", MAC, """                let __temp = ::indextree::Node::parent(__temp);
                let __temp = ::core::option::Option::unwrap(__temp);
                __node = __temp;""", """                let __up = ::core::option::Option::unwrap(::indextree::Node::parent(__temp));
                __node = __up;""", [], silent=True, note="Parent template written with one nested expression")
mut("pp-open-no-newline", DPP, "            self.fmt.write_char('\\n')?;\n", "", ["C14"], note="open_item no longer ends the previous line")
mut("pp-open-keep-first", DPP, "            indent.is_first_line = false;\n", "", ["C14"], note="the parent entry keeps its first-line marker while its children are printed")
mut("pp-first-sticky", DPP, "level.is_first_line = level.is_first_line && !ends_with_newline;", "level.is_first_line = level.is_first_line && ends_with_newline;", ["C14"])
mut("pp-pending-off-by-one", DPP, "        for _ in 0..self.pending_ws_only_indent_level {", "        for _ in 1..self.pending_ws_only_indent_level {", ["C14"])
mut("rf-rename-free-node", ARN, "fn free_node(", "fn release_slot(", [], silent=True, extra=[(IDR, ".free_node(", ".release_slot(")],
    note="the crate-private retire function under another name")
CARGO = "indextree/Cargo.toml"
mut("feat-new-additive", CARGO, "[features]\n", "[features]\nextras = []\n", [], silent=True,
    extra=[(ARN, "impl<T> Default for Arena<T> {", "#[cfg(feature = \"extras\")]\nimpl<T> Arena<T> {\n    /// Number of slots (live or removed).\n    pub fn slot_count(&self) -> usize {\n        self.nodes.len()\n    }\n}\n\nimpl<T> Default for Arena<T> {")],
    note="a new cargo feature that only adds a method")
mut("feat-new-changes-is-empty", CARGO, "[features]\n", "[features]\nextras = []\n", ["C17"],
    extra=[(ARN, "    pub fn is_empty(&self) -> bool {\n", "    pub fn is_empty(&self) -> bool {\n        #[cfg(feature = \"extras\")]\n        if self.first_free_slot.is_some() {\n            return false;\n        }\n")],
    note="a new cargo feature that changes an existing result")
mut("serde-skip-last-free", ARN, "    last_free_slot: Option<usize>,\n}", "    #[cfg_attr(feature = \"deser\", serde(skip))]\n    last_free_slot: Option<usize>,\n}", ["C16"])
mut("std-fast-path-count", ARN, "    pub fn count(&self) -> usize {\n        self.nodes.len()", "    pub fn count(&self) -> usize {\n        #[cfg(feature = \"std\")]\n        {\n            if self.nodes.is_empty() {\n                return 0;\n            }\n        }\n        self.nodes.len()", ["C17"])
mut("par-iter-skip-first", ARN, "        self.nodes.par_iter()", "        self.nodes[1..].par_iter()", ["C17"])
mut("cell-counter", ARN, "    last_free_slot: Option<usize>,\n}", "    last_free_slot: Option<usize>,\n    hits: core::cell::Cell<usize>,\n}", ["C18", "C13"],
    extra=[(ARN, "            last_free_slot: None,\n        }", "            last_free_slot: None,\n            hits: core::cell::Cell::new(0),\n        }"),
           (ARN, "        self.nodes.get(id.index0())\n    }", "        self.hits.set(self.hits.get() + 1);\n        self.nodes.get(id.index0())\n    }")],
    note="interior mutability in the arena (a hit counter updated through &self)")
mut("unsafe-index", "indextree/src/lib.rs", "#![forbid(unsafe_code)]", "#![deny(unsafe_code)]", ["C18"])


# ---- behaviour-preserving refactors: every check must stay silent on these
mut("rf-cn-match", REL, """    let (mut parent_first_child, mut parent_last_child) = parent
        .map(|id| &arena[id])
        .map_or((None, None), |node| (node.first_child, node.last_child));""",
    """    let (mut parent_first_child, mut parent_last_child) = match parent {
        Some(id) => {
            let node = &arena[id];
            (node.first_child, node.last_child)
        }
        None => (None, None),
    };""", [], silent=True)
mut("rf-cn-reorder-writes", REL, """        parent_node.first_child = parent_first_child;
        parent_node.last_child = parent_last_child;""", """        parent_node.last_child = parent_last_child;
        parent_node.first_child = parent_first_child;""", [], silent=True)
mut("rf-detach-helper", IDR, """        let range = SiblingsRange::new(self, self).detach_from_siblings(arena);
        range
            .rewrite_parents(arena, None)""", """        let single = SiblingsRange::new(self, self);
        let range = single.detach_from_siblings(arena);
        let res = range.rewrite_parents(arena, None);
        res""", [], silent=True)
mut("rf-append-iflet", IDR, """        if arena[self].is_removed() || arena[new_child].is_removed() {
            return Err(NodeError::Removed);
        }
        if self.ancestors(arena).any(|ancestor| new_child == ancestor) {
            return Err(NodeError::AppendAncestor);""", """        let self_removed = arena[self].is_removed();
        let child_removed = arena[new_child].is_removed();
        if self_removed || child_removed {
            return Err(NodeError::Removed);
        }
        let mut is_ancestor = false;
        for ancestor in self.ancestors(arena) {
            if new_child == ancestor {
                is_ancestor = true;
                break;
            }
        }
        if is_ancestor {
            return Err(NodeError::AppendAncestor);""", [], silent=True, note="replaces Iterator::any by an explicit for loop over the same iterator")
mut("rf-rewrite-parents-loop", SIB, """        let mut child_opt = Some(self.first);
        while let Some(child) = child_opt {
            if Some(child) == new_parent {
                // Attempt to set the node itself as its parent.
                return Err(ConsistencyError::ParentChildLoop);
            }
            let child_node = &mut arena[child];
            child_node.parent = new_parent;
            child_opt = child_node.next_sibling;
        }""", """        let mut child = self.first;
        loop {
            if Some(child) == new_parent {
                // Attempt to set the node itself as its parent.
                return Err(ConsistencyError::ParentChildLoop);
            }
            arena[child].parent = new_parent;
            match arena[child].next_sibling {
                Some(next) => child = next,
                None => break,
            }
        }""", [], silent=True, note="same walk written as loop/match with a NodeId cursor")
mut("rf-free-node-match", ARN, """            if let Some(index) = self.last_free_slot {
                let new_last = id.index0();
                self.nodes[index].data = NodeData::NextFree(Some(new_last));
                self.last_free_slot = Some(new_last);
            } else {""", """            if self.last_free_slot.is_some() {
                let index = self.last_free_slot.unwrap();
                let new_last = id.index0();
                self.last_free_slot = Some(new_last);
                self.nodes[index].data = NodeData::NextFree(Some(new_last));
            } else {""", [], silent=True)
mut("rf-next-traverse-iflet", TRV, """            NodeEdge::Start(node) => match arena[node].first_child {
                Some(first_child) => Some(NodeEdge::Start(first_child)),
                None => Some(NodeEdge::End(node)),
            },""", """            NodeEdge::Start(node) => {
                if let Some(first_child) = arena[node].first_child {
                    Some(NodeEdge::Start(first_child))
                } else {
                    Some(NodeEdge::End(node))
                }
            }""", [], silent=True)
mut("rf-new-node-len-first", ARN, """            let index = self.nodes.len();
            let node = Node::new(data);
            let stamp = node.stamp;
            self.nodes.push(node);
            (index, stamp)""", """            let node = Node::new(data);
            let stamp = node.stamp;
            let index = self.count();
            self.nodes.push(node);
            (index, stamp)""", [], silent=True)
mut("rf-append-skip1", IDR, "        if self.ancestors(arena).any(|ancestor| new_child == ancestor) {\n            return Err(NodeError::AppendAncestor);",
    "        if self.ancestors(arena).skip(1).any(|ancestor| new_child == ancestor) {\n            return Err(NodeError::AppendAncestor);", [], silent=True,
    note="self is skipped: new_child != self has already been checked")
mut("add-count-live", ARN, "impl<T> Default for Arena<T> {", """impl<T> Arena<T> {
    /// Number of live (not removed) nodes.
    pub fn count_live(&self) -> usize {
        let mut n = 0;
        for node in self.nodes.iter() {
            if !node.is_removed() {
                n += 1;
            }
        }
        n
    }

    /// Ids of all live nodes, in slot order.
    pub fn live_ids(&self) -> impl Iterator<Item = NodeId> + '_ {
        self.nodes
            .iter()
            .enumerate()
            .filter(|(_, n)| !n.is_removed())
            .filter_map(|(i, n)| NonZeroUsize::new(i + 1).map(|ix| NodeId::from_non_zero_usize(ix, n.stamp)))
    }
}

#[cfg(feature = "std")]
impl<T: std::fmt::Debug> Arena<T> {
    /// Dumps the arena to stderr (std only).
    pub fn dump(&self) {
        for (i, n) in self.nodes.iter().enumerate() {
            eprintln!("{}: {:?}", i + 1, n);
        }
    }
}

impl<T> Default for Arena<T> {""", [], silent=True, note="new read-only API (a loop over the slot slice, an iterator adaptor chain, a std-only helper): no property is affected")
mut("rf-is-removed-cmp", IDR, """        self.0.is_negative()""", """        self.0 < 0""", [], silent=True)
mut("rf-get-node-id-at-match", ARN, """        self.nodes
            .get(index0)
            .filter(|n| !n.is_removed())
            .map(|node| NodeId::from_non_zero_usize(index, node.stamp))""", """        match self.nodes.get(index0) {
            Some(node) if !node.is_removed() => Some(NodeId::from_non_zero_usize(index, node.stamp)),
            _ => None,
        }""", [], silent=True)


def run_one(m, args):
    t0 = time.time()
    src = os.path.join(REPO, m["file"])
    text = open(src).read()
    if m["old"] not in text:
        return {"id": m["id"], "status": "skipped (anchor text not found)"}
    d = tempfile.mkdtemp(prefix="vmut-%s-" % m["id"], dir="/tmp")
    try:
        for item in ("indextree", "indextree-macros", "Cargo.toml", "Cargo.lock"):
            s = os.path.join(REPO, item)
            if os.path.isdir(s):
                shutil.copytree(s, os.path.join(d, item), ignore=shutil.ignore_patterns("target"))
            else:
                shutil.copy(s, os.path.join(d, item))
        open(os.path.join(d, m["file"]), "w").write(text.replace(m["old"], m["new"], 1))
        for (xf, xo, xn) in m.get("extra", []):
            xt = open(os.path.join(d, xf)).read()
            if xo not in xt:
                return {"id": m["id"], "status": "skipped (anchor text of an extra edit not found)"}
            open(os.path.join(d, xf), "w").write(xt.replace(xo, xn))
        res = {"id": m["id"], "props": {}, "status": "ran"}
        if args.validate:
            r = subprocess.run(["cargo", "test", "--workspace", "--offline", "-q"], cwd=d, stdout=subprocess.PIPE, stderr=subprocess.STDOUT, text=True,
                               env=dict(os.environ, CARGO_TARGET_DIR=os.path.join(d, "target")))
            res["tests_pass"] = r.returncode == 0
        props = m["props"] if not args.props else [p for p in m["props"] if p in args.props]
        if m["silent"]:
            props = args.props or ["C01", "C02", "C03", "C04", "C05", "C06", "C07", "C08", "C09", "C10", "C11", "C12", "C13", "C14", "C15", "C16", "C17", "C18"]
        for p in props:
            if not os.path.exists(os.path.join(HERE, "props", p + ".py")):
                res["props"][p] = "no-check"
                continue
            r = subprocess.run([os.path.join(HERE, "check"), p], stdout=subprocess.PIPE, stderr=subprocess.STDOUT, text=True,
                               env=dict(os.environ, VERIF_REPO=d))
            keys = [l.strip()[5:] for l in r.stdout.splitlines() if l.strip().startswith("key: ")]
            res["props"][p] = {"exit": r.returncode, "keys": keys[:4]}
        res["wall_s"] = round(time.time() - t0, 1)
        return res
    finally:
        shutil.rmtree(d, ignore_errors=True)


def main():
    ap = argparse.ArgumentParser()
    ap.add_argument("--only")
    ap.add_argument("--validate", action="store_true")
    ap.add_argument("--props")
    ap.add_argument("--jobs", type=int, default=4)
    a = ap.parse_args()
    if a.props:
        a.props = a.props.split(",")
    ms = [m for m in M if not a.only or m["id"] in a.only.split(",")]
    if a.props:
        ms = [m for m in ms if m["silent"] or any(p in a.props for p in m["props"])]
    with ThreadPoolExecutor(max_workers=a.jobs) as ex:
        results = list(ex.map(lambda m: run_one(m, a), ms))
    bad = 0
    for m, r in zip(ms, results):
        if r["status"] != "ran":
            print("%-28s %s" % (m["id"], r["status"]))
            continue
        line = []
        for p, v in r["props"].items():
            if v == "no-check":
                line.append("%s:no-check" % p)
                continue
            want = 0 if m["silent"] else 1
            ok = v["exit"] == want
            if not ok:
                bad += 1
            line.append("%s:%s" % (p, ("caught" if v["exit"] == 1 else "silent" if v["exit"] == 0 else "exit%d" % v["exit"]) + ("" if ok else " (!!)")))
        print("%-28s %s %s %ss" % (m["id"], " ".join(line), ("tests_pass=%s" % r.get("tests_pass")) if a.validate else "", r.get("wall_s")))
    print("mismatches: %d" % bad)
    return 1 if bad else 0


if __name__ == "__main__":
    sys.exit(main())
