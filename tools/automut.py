#!/usr/bin/env python3
"""Systematic mutation campaign (development tool, not a check).

Generates one-token / one-line mutants of the library sources with a few operators, keeps those that still compile and pass the
whole existing suite ("suite survivors"), runs every property check against each survivor (VERIF_REPO=<scratch copy>) and reports
the survivors that no check flags - each of those is either an equivalent mutant or a blind spot to look at.

usage: tools/automut.py [--files id.rs,relations.rs,...] [--jobs N] [--limit N] [--out out/automut.json] [--props C01,...]
"""
import argparse, json, os, re, shutil, subprocess, sys, tempfile, time, hashlib
from concurrent.futures import ThreadPoolExecutor

HERE = os.path.dirname(os.path.dirname(os.path.abspath(__file__)))
REPO = "/repo"
SRC = os.environ.get("AUTOMUT_SRC", "indextree/src")

SWAPS = [("previous_sibling", "next_sibling"), ("next_sibling", "previous_sibling"), ("first_child", "last_child"), ("last_child", "first_child"),
         ("is_some()", "is_none()"), ("is_none()", "is_some()"), (" == ", " != "), (" != ", " == "), (" < ", " <= "), (" > ", " >= "),
         ("Some(self)", "None"), (".take()", ""), ("parent_first_child", "parent_last_child"), ("parent_last_child", "parent_first_child"),
         ("NodeEdge::Start", "NodeEdge::End"), ("NodeEdge::End", "NodeEdge::Start"), ("previous, next", "next, previous"),
         (" - 1", ""), ("wrapping_add(1)", "wrapping_add(0)"), ("head", "tail"), ("tail", "head"), (" || ", " && "), (" && ", " || "),
         ("None", "Some(self)"), ("true", "false"), ("false", "true")]
# second operator set (AUTOMUT_SET=2): negations, and/or on Options, off-by-one, argument swaps, early returns
SWAPS2 = [("if !", "if "), ("(!", "("), (".or(", ".and("), (".and(", ".or("), (" + 1", " - 1"), (" - 1", " + 1"), (" > ", " < "), (" < ", " > "),
          (".is_some_and(", ".is_none_or("), ("Some(new)", "Some(self)"), ("Some(self)", "Some(new)"), ("previous", "next"), ("next", "previous"),
          ("first", "last"), ("last", "first"), ("parent", "previous_sibling"), (".map(", ".and_then(|x| Some(x)).map("), ("return Err", "let _ = Err"),
          ("Ok(())", "Err(NodeError::Removed)"), ("unwrap_or(false)", "unwrap_or(true)"), ("?;", ".ok();"), ("continue;", "break;"), ("break;", "continue;")]
if os.environ.get("AUTOMUT_SET") == "2":
    SWAPS = SWAPS2


def code_lines(path):
    """(line number, text) of code lines outside doc comments, tests and attribute lines."""
    out = []
    in_tests = False
    for i, l in enumerate(open(path).read().split("\n")):
        s = l.strip()
        if s.startswith("#[cfg(test)]") or s.startswith("#[test]"):
            in_tests = True
        if in_tests:
            continue
        if not s or s.startswith("//") or s.startswith("#[") or s.startswith("#!["):
            continue
        out.append((i, l))
    return out


def gen(files):
    muts = []
    for f in files:
        path = os.path.join(REPO, SRC, f)
        lines = open(path).read().split("\n")
        for (i, l) in code_lines(path):
            s = l.strip()
            # operator 1: delete a simple statement line
            if s.endswith(";") and not s.startswith(("let ", "use ", "return", "pub ", "fn ", "type ", "const ", "mod ", "extern ")) and "debug_assert" not in s and "assert" not in s \
                    and l.count("(") == l.count(")") and not s.startswith("}"):
                new = list(lines)
                new[i] = ""
                muts.append({"file": f, "line": i + 1, "op": "delete", "old": s, "text": "\n".join(new)})
            # operator 2: token swaps (first occurrence on the line)
            if "debug_assert" in s or "assert_eq" in s or "assert!" in s:
                continue
            for a, b in SWAPS:
                if a in l:
                    new = list(lines)
                    new[i] = l.replace(a, b, 1)
                    if new[i] != l:
                        muts.append({"file": f, "line": i + 1, "op": "%s -> %s" % (a.strip(), b.strip() or "(removed)"), "old": s, "text": "\n".join(new)})
    # de-duplicate
    seen = set()
    out = []
    for m in muts:
        h = hashlib.sha1((m["file"] + m["text"]).encode()).hexdigest()
        if h not in seen:
            seen.add(h)
            m["id"] = "%s:%d:%s" % (m["file"], m["line"], m["op"])
            out.append(m)
    return out


def run_one(m, props):
    d = tempfile.mkdtemp(prefix="vauto-", dir="/tmp")
    res = {"id": m["id"], "old": m["old"]}
    try:
        for item in ("indextree", "indextree-macros", "Cargo.toml", "Cargo.lock"):
            s = os.path.join(REPO, item)
            if os.path.isdir(s):
                shutil.copytree(s, os.path.join(d, item), ignore=shutil.ignore_patterns("target"))
            else:
                shutil.copy(s, os.path.join(d, item))
        open(os.path.join(d, SRC, m["file"]), "w").write(m["text"])
        env = dict(os.environ, CARGO_TARGET_DIR=os.path.join(d, "target"), CARGO_NET_OFFLINE="true")
        r = subprocess.run(["cargo", "build", "--offline", "-q", "--workspace"], cwd=d, env=env, stdout=subprocess.PIPE, stderr=subprocess.STDOUT, text=True)
        if r.returncode != 0:
            res["status"] = "no-compile"
            return res
        try:
            r = subprocess.run(["cargo", "test", "--workspace", "--offline", "-q"], cwd=d, env=env, stdout=subprocess.PIPE, stderr=subprocess.STDOUT, text=True, timeout=300)
        except subprocess.TimeoutExpired:
            res["status"] = "suite-timeout"
            return res
        if r.returncode != 0:
            res["status"] = "killed-by-suite"
            return res
        shutil.rmtree(os.path.join(d, "target"), ignore_errors=True)
        res["status"] = "survivor"
        res["checks"] = {}
        for p in props:
            r = subprocess.run([os.path.join(HERE, "check"), p], stdout=subprocess.PIPE, stderr=subprocess.STDOUT, text=True, env=dict(os.environ, VERIF_REPO=d))
            keys = [l.strip()[5:] for l in r.stdout.splitlines() if l.strip().startswith("key: ")]
            res["checks"][p] = {"exit": r.returncode, "keys": keys[:2]}
            if r.returncode == 1 and not os.environ.get("AUTOMUT_ALL"):
                break           # one catching check is enough for the campaign
        res["caught_by"] = [p for p, v in res["checks"].items() if v["exit"] == 1]
        res["faults"] = [p for p, v in res["checks"].items() if v["exit"] not in (0, 1)]
        return res
    finally:
        shutil.rmtree(d, ignore_errors=True)


def main():
    ap = argparse.ArgumentParser()
    ap.add_argument("--files", default="id.rs,relations.rs,siblings_range.rs,arena.rs,node.rs,traverse.rs")
    ap.add_argument("--jobs", type=int, default=6)
    ap.add_argument("--limit", type=int, default=0)
    ap.add_argument("--out", default=os.path.join(HERE, "out", "automut.json"))
    ap.add_argument("--props", default="C01,C03,C04,C05,C12,C02,C07,C06,C09,C10,C11,C08,C13")
    a = ap.parse_args()
    muts = gen(a.files.split(","))
    if a.limit:
        muts = muts[:a.limit]
    props = a.props.split(",")
    print("%d mutants" % len(muts), flush=True)
    t0 = time.time()
    results = []
    with ThreadPoolExecutor(max_workers=a.jobs) as ex:
        for i, r in enumerate(ex.map(lambda m: run_one(m, props), muts)):
            results.append(r)
            if r["status"] == "survivor":
                print("[%d/%d] SURVIVOR %s  | %s | caught by %s%s" % (i + 1, len(muts), r["id"], r["old"][:70], r["caught_by"] or "NOTHING", (" faults %s" % r["faults"]) if r["faults"] else ""), flush=True)
    os.makedirs(os.path.dirname(a.out), exist_ok=True)
    json.dump(results, open(a.out, "w"), indent=1)
    from collections import Counter
    c = Counter(r["status"] for r in results)
    surv = [r for r in results if r["status"] == "survivor"]
    missed = [r for r in surv if not r["caught_by"]]
    print("summary: %s; survivors %d, caught %d, not flagged %d; %.0fs" % (dict(c), len(surv), len(surv) - len(missed), len(missed), time.time() - t0))
    for r in missed:
        print("NOT FLAGGED: %s | %s" % (r["id"], r["old"][:90]))


if __name__ == "__main__":
    main()
