#!/usr/bin/env python3
"""Validate a seeded change produced by an independent sub-agent and run the checks against it.

usage: tools/seed_eval.py <seed dir containing patch.diff, demo.rs, meta.json> <name> [--props C01,C05,...] [--keep]
Steps (all in a scratch copy of /repo outside /repo and /verif, removed afterwards):
  1. the patch applies to /repo's HEAD, the workspace builds and the whole existing suite passes with it
  2. the demonstration fails with the patch and passes without it
  3. every listed property check (default: all claimed) is run against the patched copy (VERIF_REPO=<copy>)
If 1 and 2 hold the seed is kept as /verif/seeded/<name>/ with meta.json recording what was run and which checks caught it.
"""
import argparse, json, os, shutil, subprocess, sys, tempfile, time

HERE = os.path.dirname(os.path.dirname(os.path.abspath(__file__)))
REPO = "/repo"


def sh(cmd, cwd, env=None, timeout=1800):
    e = dict(os.environ)
    e["CARGO_NET_OFFLINE"] = "true"
    if env:
        e.update(env)
    r = subprocess.run(cmd, cwd=cwd, env=e, stdout=subprocess.PIPE, stderr=subprocess.STDOUT, text=True, timeout=timeout)
    return r.returncode, r.stdout


def copy_repo(dst):
    for item in ("indextree", "indextree-macros", "Cargo.toml", "Cargo.lock"):
        s = os.path.join(REPO, item)
        if os.path.isdir(s):
            shutil.copytree(s, os.path.join(dst, item), ignore=shutil.ignore_patterns("target"))
        else:
            shutil.copy(s, os.path.join(dst, item))


def main():
    ap = argparse.ArgumentParser()
    ap.add_argument("seed")
    ap.add_argument("name")
    ap.add_argument("--props")
    ap.add_argument("--novalidate", action="store_true")
    ap.add_argument("--demo-pkg", default="indextree")
    ap.add_argument("--demo-args", default="")
    a = ap.parse_args()
    manifest = json.load(open(os.path.join(HERE, "MANIFEST.json")))
    props = a.props.split(",") if a.props else [c["property_id"] for c in manifest["checks"]]
    patch = os.path.abspath(os.path.join(a.seed, "patch.diff"))
    demo = os.path.abspath(os.path.join(a.seed, "demo.rs"))
    meta = json.load(open(os.path.join(a.seed, "meta.json"))) if os.path.exists(os.path.join(a.seed, "meta.json")) else {}
    d = tempfile.mkdtemp(prefix="vseed-", dir="/tmp")
    ran = []
    ok = True
    try:
        copy_repo(d)
        tgt = os.path.join(d, "target")
        env = {"CARGO_TARGET_DIR": tgt}
        if not a.novalidate:
            # demo passes on the unchanged tree
            shutil.copy(demo, os.path.join(d, a.demo_pkg, "tests", "seed_demo.rs"))
            rc, out = sh(["cargo", "test", "--offline", "-p", a.demo_pkg, "--test", "seed_demo"] + a.demo_args.split(), d, env)
            ran.append("unchanged tree: cargo test -p %s --test seed_demo %s -> exit %d" % (a.demo_pkg, a.demo_args, rc))
            if rc != 0:
                print("REJECT: demo does not pass on the unchanged tree\n" + out[-1500:])
                ok = False
            os.remove(os.path.join(d, a.demo_pkg, "tests", "seed_demo.rs"))
        rc, out = sh(["git", "apply", "--check", patch], REPO)
        rc2, out2 = sh(["patch", "-p1", "-i", patch], d)
        ran.append("patch -p1 -> exit %d" % rc2)
        if rc2 != 0:
            print("REJECT: patch does not apply\n" + out2[-1500:])
            ok = False
        if ok and not a.novalidate:
            rc, out = sh(["cargo", "test", "--workspace", "--offline", "--no-fail-fast"], d, env)
            ran.append("patched tree: cargo test --workspace -> exit %d" % rc)
            if rc != 0:
                print("REJECT: existing suite fails with the patch\n" + out[-2500:])
                ok = False
            shutil.copy(demo, os.path.join(d, a.demo_pkg, "tests", "seed_demo.rs"))
            rc, out = sh(["cargo", "test", "--offline", "-p", a.demo_pkg, "--test", "seed_demo"] + a.demo_args.split(), d, env)
            ran.append("patched tree: cargo test -p %s --test seed_demo %s -> exit %d (must fail)" % (a.demo_pkg, a.demo_args, rc))
            if rc == 0:
                print("REJECT: demo passes with the patch")
                ok = False
            os.remove(os.path.join(d, a.demo_pkg, "tests", "seed_demo.rs"))
        shutil.rmtree(tgt, ignore_errors=True)
        results = {}
        if ok:
            for p in props:
                t0 = time.time()
                r = subprocess.run([os.path.join(HERE, "check"), p], stdout=subprocess.PIPE, stderr=subprocess.STDOUT, text=True, env=dict(os.environ, VERIF_REPO=d))
                keys = [l.strip()[5:] for l in r.stdout.splitlines() if l.strip().startswith("key: ")]
                results[p] = {"exit": r.returncode, "keys": keys[:5], "wall_s": round(time.time() - t0, 1)}
                ran.append("VERIF_REPO=<patched copy> ./check %s -> exit %d" % (p, r.returncode))
            caught = sorted(p for p, v in results.items() if v["exit"] == 1)
            faults = sorted(p for p, v in results.items() if v["exit"] not in (0, 1))
            print("seed %s: caught by %s%s" % (a.name, caught or "NOTHING", (" tool faults: %s" % faults) if faults else ""))
            for p in caught:
                print("   %s: %s" % (p, results[p]["keys"][:2]))
            out_dir = os.path.join(HERE, "seeded", a.name)
            os.makedirs(out_dir, exist_ok=True)
            for src_, dst_ in ((patch, os.path.join(out_dir, "patch.diff")), (demo, os.path.join(out_dir, "demo.rs"))):
                if os.path.abspath(src_) != os.path.abspath(dst_):
                    shutil.copy(src_, dst_)
            meta.update({"name": a.name, "validated": not a.novalidate, "ran": ran, "checks": results, "caught_by": caught,
                         "intended_property": meta.get("property"), "repo_head": subprocess.run(["git", "-C", REPO, "log", "--format=%h", "-1"], capture_output=True, text=True).stdout.strip()})
            json.dump(meta, open(os.path.join(out_dir, "meta.json"), "w"), indent=1)
    finally:
        shutil.rmtree(d, ignore_errors=True)
    return 0 if ok else 1


if __name__ == "__main__":
    sys.exit(main())
