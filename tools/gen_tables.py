#!/usr/bin/env python3
"""Regenerate the seed and benign-change tables of DESIGN.md from /verif/seeded/*/meta.json and /verif/benign/*/meta.json (between the marker comments)."""
import json, os, re, sys

HERE = os.path.dirname(os.path.dirname(os.path.abspath(__file__)))


def short(s, n=150):
    s = " ".join((s or "").split())
    return s[:n].replace("|", "/")


def seeds():
    rows = ["| seed | what it does (sub-agent's own summary, abridged) | caught by |", "|---|---|---|"]
    d = os.path.join(HERE, "seeded")
    for name in sorted(os.listdir(d)):
        mp = os.path.join(d, name, "meta.json")
        if not os.path.exists(mp):
            continue
        m = json.load(open(mp))
        rows.append("| %s | %s | %s |" % (name, short(m.get("summary")), " ".join(m.get("caught_by") or []) or "**nothing**"))
    return "\n".join(rows)


def benign():
    rows = ["| change | kind | what it does (sub-agent's own summary, abridged) | checks |", "|---|---|---|---|"]
    d = os.path.join(HERE, "benign")
    for name in sorted(os.listdir(d)):
        mp = os.path.join(d, name, "meta.json")
        if not os.path.exists(mp):
            continue
        m = json.load(open(mp))
        al = m.get("alarms") or []
        fl = m.get("faults") or []
        verdict = "all silent" if not al and not fl else ("ALARM " + " ".join(al + fl))
        rows.append("| %s | %s | %s | %s |" % (name, m.get("kind", ""), short(m.get("summary")), verdict))
    return "\n".join(rows)


def main():
    p = os.path.join(HERE, "DESIGN.md")
    s = open(p).read()
    for tag, fn in (("SEEDS", seeds), ("BENIGN", benign)):
        a, b = "<!-- %s:BEGIN -->" % tag, "<!-- %s:END -->" % tag
        if a in s and b in s:
            s = s[:s.index(a) + len(a)] + "\n" + fn() + "\n" + s[s.index(b):]
        else:
            print("marker %s missing" % tag)
    open(p, "w").write(s)


if __name__ == "__main__":
    main()
