//! E3: type-level witnesses for C18 (and the plain-value part of C13).
//!
//! Positive facts are *generic functions that must type-check for every `T`*; negative facts are
//! `compile_fail,E0277` doc-tests, each paired with a compiling twin that differs only in the
//! offending type (so a witness that fails for an unrelated reason is detected: its twin fails too).
#![feature(freeze)]
#![allow(dead_code, deprecated)]

use core::marker::Freeze;
use indextree::*;

fn is_send<X: Send>() {}
fn is_sync<X: Sync>() {}
fn is_freeze<X: Freeze>() {}
fn is_unpin<X: Unpin>() {}
fn is_clone<X: Clone>() {}
fn is_eq<X: Eq>() {}
fn is_copy<X: Copy>() {}
fn is_static<X: 'static>() {}

/// W1: owned types are `Send` whenever `T` is.
pub fn w_send<T: Send>() {
    is_send::<Arena<T>>();
    is_send::<Node<T>>();
    is_send::<NodeId>();
    is_send::<NodeEdge>();
    is_send::<NodeError>();
}

/// W2: owned types are `Sync` whenever `T` is.
pub fn w_sync<T: Sync>() {
    is_sync::<Arena<T>>();
    is_sync::<Node<T>>();
    is_sync::<NodeId>();
    is_sync::<NodeEdge>();
    is_sync::<NodeError>();
}

/// W3: every borrowing iterator / printer is `Send` and `Sync` whenever `T: Sync`
/// (they hold `&Arena<T>` and ids only).
pub fn w_iters<'a, T: Sync + 'a>() {
    is_send::<Ancestors<'a, T>>();
    is_sync::<Ancestors<'a, T>>();
    is_send::<Predecessors<'a, T>>();
    is_sync::<Predecessors<'a, T>>();
    is_send::<PrecedingSiblings<'a, T>>();
    is_sync::<PrecedingSiblings<'a, T>>();
    is_send::<FollowingSiblings<'a, T>>();
    is_sync::<FollowingSiblings<'a, T>>();
    is_send::<Children<'a, T>>();
    is_sync::<Children<'a, T>>();
    is_send::<ReverseChildren<'a, T>>();
    is_sync::<ReverseChildren<'a, T>>();
    is_send::<Descendants<'a, T>>();
    is_sync::<Descendants<'a, T>>();
    is_send::<Traverse<'a, T>>();
    is_sync::<Traverse<'a, T>>();
    is_send::<ReverseTraverse<'a, T>>();
    is_sync::<ReverseTraverse<'a, T>>();
    is_send::<DebugPrettyPrint<'a, T>>();
    is_sync::<DebugPrettyPrint<'a, T>>();
}

/// W4: no interior mutability stored inline: `Freeze` for every `T: Freeze`;
/// ids/edges are `Freeze`, `Copy`, `'static` unconditionally.
pub fn w_freeze<T: Freeze>() {
    is_freeze::<Arena<T>>();
    is_freeze::<Node<T>>();
    is_freeze::<NodeId>();
    is_freeze::<NodeEdge>();
    is_copy::<NodeId>();
    is_copy::<NodeEdge>();
    is_static::<NodeId>();
    is_static::<NodeEdge>();
    is_unpin::<NodeId>();
}

/// W5 (C13): arenas are plain values: `Clone` for `T: Clone`, `Eq` for `T: Eq`.
pub fn w_value<T: Clone + Eq>() {
    is_clone::<Arena<T>>();
    is_eq::<Arena<T>>();
    is_clone::<Node<T>>();
    is_eq::<Node<T>>();
    is_eq::<NodeId>();
}

/// W6: shared reads only need `&Arena`: every traversal constructor and read accessor takes
/// `&Arena<T>` (this function borrows the arena immutably for all of them at once).
pub fn w_shared_reads<T>(arena: &Arena<T>, id: NodeId) {
    let a = id.ancestors(arena);
    let b = id.predecessors(arena);
    let c = id.preceding_siblings(arena);
    let d = id.following_siblings(arena);
    let e = id.children(arena);
    let f = id.reverse_children(arena);
    let g = id.descendants(arena);
    let h = id.traverse(arena);
    let i = id.reverse_traverse(arena);
    let _ = (arena.get(id), arena.count(), arena.is_empty(), arena.iter(), arena.as_slice(), arena.capacity());
    let _ = (id.is_removed(arena), arena.get_node_id_at(id.into()));
    let _ = (a, b, c, d, e, f, g, h, i);
}

#[cfg(feature = "par_iter")]
/// W7: `par_iter` needs only `&Arena<T>` with `T: Sync`.
pub fn w_par<T: Sync>(arena: &Arena<T>) {
    let _ = arena.par_iter();
}

/// N1: `Arena<Rc<()>>` is not `Send`.
/// ```compile_fail,E0277
/// fn is_send<X: Send>() {}
/// is_send::<indextree::Arena<std::rc::Rc<()>>>();
/// ```
/// twin:
/// ```
/// fn is_send<X: Send>() {}
/// is_send::<indextree::Arena<std::sync::Arc<()>>>();
/// ```
pub struct N1;

/// N2: `Arena<Cell<u8>>` is not `Sync`.
/// ```compile_fail,E0277
/// fn is_sync<X: Sync>() {}
/// is_sync::<indextree::Arena<std::cell::Cell<u8>>>();
/// ```
/// twin:
/// ```
/// fn is_sync<X: Sync>() {}
/// is_sync::<indextree::Arena<u8>>();
/// ```
pub struct N2;

/// N3: `Node<Rc<()>>` is neither `Send` nor `Sync`.
/// ```compile_fail,E0277
/// fn is_send<X: Send>() {}
/// is_send::<indextree::Node<std::rc::Rc<()>>>();
/// ```
/// ```compile_fail,E0277
/// fn is_sync<X: Sync>() {}
/// is_sync::<indextree::Node<std::rc::Rc<()>>>();
/// ```
/// twin:
/// ```
/// fn is_send<X: Send>() {}
/// fn is_sync<X: Sync>() {}
/// is_send::<indextree::Node<std::sync::Arc<()>>>();
/// is_sync::<indextree::Node<std::sync::Arc<()>>>();
/// ```
pub struct N3;

/// N4: a traversal over `Arena<Cell<u8>>` cannot be sent to another thread
/// (it holds `&Arena<T>`, which is `Send` only if `T: Sync`).
/// ```compile_fail,E0277
/// fn is_send<X: Send>() {}
/// is_send::<indextree::Traverse<'static, std::cell::Cell<u8>>>();
/// ```
/// ```compile_fail,E0277
/// fn is_send<X: Send>() {}
/// is_send::<indextree::Children<'static, std::cell::Cell<u8>>>();
/// ```
/// twin:
/// ```
/// fn is_send<X: Send>() {}
/// is_send::<indextree::Traverse<'static, u8>>();
/// is_send::<indextree::Children<'static, u8>>();
/// ```
pub struct N4;

/// N5: mutation needs `&mut Arena`: a shared borrow cannot be used to change the forest.
/// ```compile_fail,E0308
/// let mut arena = indextree::Arena::new();
/// let a = arena.new_node(1);
/// let b = arena.new_node(2);
/// let shared = &arena;
/// a.append(b, shared);
/// ```
/// twin:
/// ```
/// let mut arena = indextree::Arena::new();
/// let a = arena.new_node(1);
/// let b = arena.new_node(2);
/// let shared = &mut arena;
/// a.append(b, shared);
/// ```
pub struct N5;

/// N6: no mutation while an iterator borrows the arena.
/// ```compile_fail,E0502
/// let mut arena = indextree::Arena::new();
/// let a = arena.new_node(1);
/// let it = a.descendants(&arena);
/// a.remove(&mut arena);
/// drop(it);
/// ```
/// twin:
/// ```
/// let mut arena = indextree::Arena::new();
/// let a = arena.new_node(1);
/// let it = a.descendants(&arena);
/// drop(it);
/// a.remove(&mut arena);
/// ```
pub struct N6;

/// N7: link fields are not writable from outside the crate.
/// ```compile_fail,E0616
/// let mut arena = indextree::Arena::new();
/// let a = arena.new_node(1);
/// arena[a].parent = None;
/// ```
/// twin:
/// ```
/// let mut arena = indextree::Arena::new();
/// let a = arena.new_node(1);
/// assert!(arena[a].parent().is_none());
/// ```
pub struct N7;
