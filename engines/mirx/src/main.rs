//! mirx — facts exporter (engine E0).
//!
//! A `rustc_private` driver used as `RUSTC_WORKSPACE_WRAPPER`.  For every workspace crate whose
//! name is listed in `MIRX_CRATES` it writes one JSON file `$MIRX_OUT/<crate>.json` containing
//! the type-checked program: ADTs, impls, functions, and the MIR of every body with every call
//! resolved to an instance.  Nothing is executed; this is the compiler's own view of the program.
#![feature(rustc_private)]
#![allow(clippy::all)]

extern crate rustc_abi;
extern crate rustc_driver;
extern crate rustc_hir;
extern crate rustc_interface;
extern crate rustc_middle;
extern crate rustc_span;

mod json;
use json::J;

use rustc_driver::{Callbacks, Compilation};
use rustc_hir::def::DefKind;
use rustc_hir::def_id::{DefId, LocalDefId};
use rustc_interface::interface::Compiler;
use rustc_middle::mir::{
    self, AggregateKind, BinOp, Body, BorrowKind, CastKind, Const, ConstValue, Operand, Place,
    ProjectionElem, Rvalue, StatementKind, TerminatorKind, UnOp,
};
use rustc_middle::ty::print::{PrintTraitRefExt, with_crate_prefix, with_no_trimmed_paths, with_no_visible_paths, with_forced_impl_filename_line};
use rustc_middle::ty::{self, GenericArgsRef, Instance, InstanceKind, Ty, TyCtxt, TypingEnv};
use rustc_span::Span;
use std::collections::HashMap;

struct Cb;

impl Callbacks for Cb {
    fn after_analysis<'tcx>(&mut self, _c: &Compiler, tcx: TyCtxt<'tcx>) -> Compilation {
        let crate_name = tcx.crate_name(rustc_hir::def_id::LOCAL_CRATE).to_string();
        let wanted = std::env::var("MIRX_CRATES").unwrap_or_else(|_| "indextree,indextree_macros".into());
        let out = match std::env::var("MIRX_OUT") {
            Ok(o) => o,
            Err(_) => return Compilation::Continue,
        };
        if !wanted.split(',').any(|w| w == crate_name) {
            return Compilation::Continue;
        }
        if tcx.sess.opts.test {
            return Compilation::Continue;
        }
        let mut ex = Exporter { tcx, types: Vec::new(), type_ix: HashMap::new(), ext_queue: Vec::new(), ext_seen: HashMap::new() };
        let j = ex.export_crate(&crate_name);
        let path = format!("{}/{}.json", out, crate_name);
        let text = j.to_string();
        std::fs::write(&path, text).expect("mirx: cannot write facts");
        Compilation::Continue
    }
}

fn main() {
    let mut args: Vec<String> = std::env::args().collect();
    // RUSTC_WORKSPACE_WRAPPER protocol: argv[1] is the path of the real rustc.
    if args.len() > 1 && (args[1].ends_with("rustc") || args[1].contains("/rustc")) {
        args.remove(1);
    }
    let mut cb = Cb;
    rustc_driver::run_compiler(&args, &mut cb);
}

struct Exporter<'tcx> {
    tcx: TyCtxt<'tcx>,
    types: Vec<J>,
    type_ix: HashMap<Ty<'tcx>, usize>,
    /// instances of generic / inline std functions whose (library) MIR is exported as a fall-back for the interpreter's hand-written models
    ext_queue: Vec<(DefId, GenericArgsRef<'tcx>, TypingEnv<'tcx>, String)>,
    ext_seen: HashMap<String, ()>,
}

/// std items whose MIR is plain safe code worth interpreting (iterator default methods, Option/Result/bool combinators).
fn ext_wanted(path: &str) -> bool {
    const P: [&str; 7] = [
        "core::iter::traits::iterator::Iterator::",
        "core::iter::traits::double_ended::DoubleEndedIterator::",
        "core::option::Option::<",
        "core::result::Result::<",
        "core::bool::<impl bool>::",
        "core::iter::adapters::",
        "core::ops::try_trait::",
    ];
    P.iter().any(|p| path.starts_with(p))
}

fn np<F: FnOnce() -> String>(f: F) -> String {
    with_crate_prefix!(with_no_visible_paths!(with_no_trimmed_paths!(with_forced_impl_filename_line!(f()))))
}

impl<'tcx> Exporter<'tcx> {
    fn span(&self, sp: Span) -> J {
        let sm = self.tcx.sess.source_map();
        let lo = sm.lookup_char_pos(sp.lo());
        let hi = sm.lookup_char_pos(sp.hi());
        let file = match &lo.file.name {
            rustc_span::FileName::Real(r) => {
                r.local_path().map(|p| p.to_string_lossy().to_string()).unwrap_or_else(|| format!("{:?}", r))
            }
            o => format!("{:?}", o),
        };
        J::obj(vec![
            ("file", J::s(file)),
            ("l0", J::n(lo.line as i128)),
            ("c0", J::n(lo.col.0 as i128 + 1)),
            ("l1", J::n(hi.line as i128)),
            ("c1", J::n(hi.col.0 as i128 + 1)),
            ("exp", J::b(sp.from_expansion())),
        ])
    }

    fn path(&self, did: DefId) -> String {
        np(|| self.tcx.def_path_str(did))
    }

    /// Semantic key of a function-like item: `<Self as Trait>::name`, `Self::name`, free path,
    /// parent-key + `::{closure#n}`.
    fn fn_key(&self, did: DefId) -> String {
        let tcx = self.tcx;
        match tcx.def_kind(did) {
            DefKind::Closure => {
                let parent = tcx.parent(did);
                let dk = tcx.def_key(did);
                format!("{}::{{closure#{}}}", self.fn_key(parent), dk.disambiguated_data.disambiguator)
            }
            DefKind::AssocFn | DefKind::AssocConst { .. } => {
                let parent = tcx.parent(did);
                let name = tcx.item_name(did).to_string();
                match tcx.def_kind(parent) {
                    DefKind::Impl { .. } => {
                        let self_ty = tcx.type_of(parent).instantiate_identity().skip_norm_wip();
                        let st = np(|| format!("{}", self_ty));
                        match tcx.impl_opt_trait_ref(parent) {
                            Some(tr) => {
                                let tr = tr.instantiate_identity().skip_norm_wip();
                                let ts = np(|| format!("{}", tr.print_only_trait_path()));
                                format!("<{} as {}>::{}", st, ts, name)
                            }
                            None => format!("{}::{}", st, name),
                        }
                    }
                    _ => self.path(did),
                }
            }
            _ => self.path(did),
        }
    }

    fn ty(&mut self, t: Ty<'tcx>) -> J {
        J::n(self.ty_ix(t) as i128)
    }

    fn ty_ix(&mut self, t: Ty<'tcx>) -> usize {
        if let Some(&i) = self.type_ix.get(&t) {
            return i;
        }
        let i = self.types.len();
        self.types.push(J::Null);
        self.type_ix.insert(t, i);
        let s = np(|| format!("{}", t));
        let mut f: Vec<(&str, J)> = vec![("s", J::s(s))];
        match *t.kind() {
            ty::Bool => f.push(("k", J::s("bool"))),
            ty::Char => f.push(("k", J::s("char"))),
            ty::Int(it) => {
                f.push(("k", J::s("int")));
                f.push(("signed", J::b(true)));
                f.push(("bits", J::n(it.bit_width().unwrap_or(64) as i128)));
                f.push(("name", J::s(it.name_str())));
            }
            ty::Uint(ut) => {
                f.push(("k", J::s("int")));
                f.push(("signed", J::b(false)));
                f.push(("bits", J::n(ut.bit_width().unwrap_or(64) as i128)));
                f.push(("name", J::s(ut.name_str())));
            }
            ty::Float(_) => f.push(("k", J::s("float"))),
            ty::Adt(def, args) => {
                f.push(("k", J::s("adt")));
                f.push(("path", J::s(self.path(def.did()))));
                f.push(("local", J::b(def.did().is_local())));
                f.push(("adt_kind", J::s(if def.is_enum() { "enum" } else if def.is_union() { "union" } else { "struct" })));
                let a = self.gen_args(args);
                f.push(("args", a));
            }
            ty::Ref(_, inner, m) => {
                f.push(("k", J::s("ref")));
                f.push(("mut", J::b(m.is_mut())));
                let it = self.ty(inner);
                f.push(("ty", it));
            }
            ty::RawPtr(inner, m) => {
                f.push(("k", J::s("rawptr")));
                f.push(("mut", J::b(m.is_mut())));
                let it = self.ty(inner);
                f.push(("ty", it));
            }
            ty::Tuple(ts) => {
                f.push(("k", J::s("tuple")));
                let v: Vec<J> = ts.iter().map(|x| self.ty(x)).collect();
                f.push(("tys", J::Arr(v)));
            }
            ty::Param(p) => {
                f.push(("k", J::s("param")));
                f.push(("name", J::s(p.name.to_string())));
            }
            ty::Closure(did, args) => {
                f.push(("k", J::s("closure")));
                f.push(("key", J::s(self.fn_key(did))));
                let up: Vec<J> = args.as_closure().upvar_tys().iter().map(|x| self.ty(x)).collect();
                f.push(("upvars", J::Arr(up)));
            }
            ty::FnDef(did, args) => {
                f.push(("k", J::s("fndef")));
                f.push(("path", J::s(self.path(did))));
                let a = self.gen_args(args);
                f.push(("args", a));
            }
            ty::FnPtr(..) => f.push(("k", J::s("fnptr"))),
            ty::Never => f.push(("k", J::s("never"))),
            ty::Str => f.push(("k", J::s("str"))),
            ty::Slice(inner) => {
                f.push(("k", J::s("slice")));
                let it = self.ty(inner);
                f.push(("ty", it));
            }
            ty::Array(inner, _) => {
                f.push(("k", J::s("array")));
                let it = self.ty(inner);
                f.push(("ty", it));
            }
            ty::Dynamic(..) => f.push(("k", J::s("dyn"))),
            ty::Alias(..) => f.push(("k", J::s("alias"))),
            ty::Foreign(_) => f.push(("k", J::s("foreign"))),
            _ => f.push(("k", J::s("other"))),
        }
        self.types[i] = J::obj(f);
        i
    }

    fn gen_args(&mut self, args: GenericArgsRef<'tcx>) -> J {
        let mut v = Vec::new();
        for a in args.iter() {
            if let Some(t) = a.as_type() {
                v.push(self.ty(t));
            } else if let Some(c) = a.as_const() {
                v.push(J::s(np(|| format!("const {}", c))));
            }
        }
        J::Arr(v)
    }

    fn attrs_of(&self, did: DefId) -> J {
        // Only what the rules need, computed from queries that are stable to ask.
        let tcx = self.tcx;
        let mut v = Vec::new();
        if did.is_local() {
            let hir_id = tcx.local_def_id_to_hir_id(did.expect_local());
            for a in tcx.hir_attrs(hir_id) {
                let s = format!("{:?}", a);
                if s.starts_with("Parsed(DocComment") {
                    continue;
                }
                // keep it short: the attribute debug output can be long
                let short: String = s.chars().take(400).collect();
                v.push(J::s(short));
            }
        }
        J::Arr(v)
    }

    fn export_crate(&mut self, crate_name: &str) -> J {
        let tcx = self.tcx;
        let mut adts = Vec::new();
        let mut impls = Vec::new();
        let mut fns = Vec::new();
        let mut statics = Vec::new();
        let mut consts = Vec::new();
        let mut traits = Vec::new();
        let mut uses_unsafe = Vec::new();

        // crate attributes
        let crate_attrs: Vec<J> = tcx
            .hir_attrs(rustc_hir::CRATE_HIR_ID)
            .iter()
            .map(|a| format!("{:?}", a))
            .filter(|s| !s.starts_with("Parsed(DocComment"))
            .map(|s| J::s(s.chars().take(400).collect::<String>()))
            .collect();

        let defs: Vec<LocalDefId> = tcx.iter_local_def_id().collect();
        for ldid in defs {
            let did = ldid.to_def_id();
            let kind = tcx.def_kind(did);
            match kind {
                DefKind::Struct | DefKind::Enum | DefKind::Union => {
                    adts.push(self.export_adt(did));
                }
                DefKind::Impl { .. } => {
                    impls.push(self.export_impl(did));
                }
                DefKind::Trait => {
                    traits.push(J::obj(vec![
                        ("path", J::s(self.path(did))),
                        ("span", self.span(tcx.def_span(did))),
                        ("unsafe", J::b(tcx.trait_def(did).safety.is_unsafe())),
                    ]));
                }
                DefKind::Static { .. } => {
                    let t = tcx.type_of(did).instantiate_identity().skip_norm_wip();
                    statics.push(J::obj(vec![
                        ("path", J::s(self.path(did))),
                        ("ty", self.ty(t)),
                        ("mutable", J::b(tcx.is_mutable_static(did))),
                        ("span", self.span(tcx.def_span(did))),
                    ]));
                }
                DefKind::Const { .. } | DefKind::AssocConst { .. } => {
                    let t = tcx.type_of(did).instantiate_identity().skip_norm_wip();
                    consts.push(J::obj(vec![
                        ("path", J::s(self.fn_key(did))),
                        ("ty", self.ty(t)),
                        ("span", self.span(tcx.def_span(did))),
                    ]));
                }
                DefKind::Fn | DefKind::AssocFn | DefKind::Closure => {
                    if let Some(f) = self.export_fn(did, kind, &mut uses_unsafe) {
                        fns.push(f);
                    }
                }
                _ => {}
            }
        }

        // library MIR of the std combinators the crate instantiates (transitively, within the wanted families)
        let mut ext_fns = Vec::new();
        while let Some((d, args, env, ek)) = self.ext_queue.pop() {
            let inst = Instance::new_raw(d, args);
            let body: &Body<'tcx> = tcx.instance_mir(inst.def);
            let mono: Body<'tcx> = inst.instantiate_mir_and_normalize_erasing_regions(tcx, env, ty::EarlyBinder::bind(body.clone()));
            let m = self.export_body(&mono, env);
            ext_fns.push(J::obj(vec![("key", J::s(ek)), ("path", J::s(self.path(d))), ("mir", m)]));
        }

        let mut feats: Vec<String> = tcx
            .sess
            .config
            .iter()
            .map(|(k, v)| match v {
                Some(v) => format!("{}={}", k, v),
                None => k.to_string(),
            })
            .collect();
        feats.sort();
        let features: Vec<J> = feats.into_iter().map(J::s).collect();

        J::obj(vec![
            ("crate", J::s(crate_name)),
            ("cfg", J::Arr(features)),
            ("debug_assertions", J::b(tcx.sess.opts.debug_assertions)),
            ("overflow_checks", J::b(tcx.sess.overflow_checks())),
            ("crate_attrs", J::Arr(crate_attrs)),
            ("adts", J::Arr(adts)),
            ("impls", J::Arr(impls)),
            ("traits", J::Arr(traits)),
            ("statics", J::Arr(statics)),
            ("consts", J::Arr(consts)),
            ("fns", J::Arr(fns)),
            ("ext_fns", J::Arr(ext_fns)),
            ("unsafe_sites", J::Arr(uses_unsafe)),
            ("types", J::Arr(std::mem::take(&mut self.types))),
        ])
    }

    fn vis(&self, did: DefId) -> String {
        match self.tcx.def_kind(did) {
            DefKind::Closure | DefKind::AnonConst | DefKind::InlineConst => "closure".to_string(),
            _ => match self.tcx.visibility(did) {
                ty::Visibility::Public => "pub".to_string(),
                ty::Visibility::Restricted(m) => {
                    if m.is_crate_root() {
                        "crate".to_string()
                    } else {
                        format!("in {}", self.path(m))
                    }
                }
            },
        }
    }

    fn export_adt(&mut self, did: DefId) -> J {
        let tcx = self.tcx;
        let def = tcx.adt_def(did);
        let mut variants = Vec::new();
        for v in def.variants().iter() {
            let mut fields = Vec::new();
            for fd in v.fields.iter() {
                let t = tcx.type_of(fd.did).instantiate_identity().skip_norm_wip();
                fields.push(J::obj(vec![
                    ("name", J::s(fd.name.to_string())),
                    ("ty", self.ty(t)),
                    ("vis", J::s(self.vis(fd.did))),
                    ("attrs", self.attrs_of(fd.did)),
                ]));
            }
            variants.push(J::obj(vec![
                ("name", J::s(v.name.to_string())),
                ("fields", J::Arr(fields)),
                ("attrs", self.attrs_of(v.def_id)),
            ]));
        }
        let generics: Vec<J> = tcx
            .generics_of(did)
            .own_params
            .iter()
            .map(|p| J::s(p.name.to_string()))
            .collect();
        J::obj(vec![
            ("path", J::s(self.path(did))),
            ("kind", J::s(if def.is_enum() { "enum" } else if def.is_union() { "union" } else { "struct" })),
            ("vis", J::s(self.vis(did))),
            ("generics", J::Arr(generics)),
            ("variants", J::Arr(variants)),
            ("attrs", self.attrs_of(did)),
            ("repr", J::s(format!("{:?}", def.repr()))),
            ("span", self.span(tcx.def_span(did))),
        ])
    }

    fn export_impl(&mut self, did: DefId) -> J {
        let tcx = self.tcx;
        let self_ty = tcx.type_of(did).instantiate_identity().skip_norm_wip();
        let tr = tcx.impl_opt_trait_ref(did).map(|t| {
            let t = t.instantiate_identity().skip_norm_wip();
            (np(|| format!("{}", t.print_only_trait_path())), self.path(t.def_id))
        });
        let items: Vec<J> = tcx
            .associated_item_def_ids(did)
            .iter()
            .map(|d| J::s(self.fn_key(*d)))
            .collect();
        let derived = tcx.is_automatically_derived(did);
        let preds: Vec<J> = tcx
            .predicates_of(did)
            .predicates
            .iter()
            .map(|(p, _)| J::s(np(|| format!("{}", p))))
            .collect();
        let is_unsafe = match tr {
            Some(_) => tcx.impl_trait_header(did).safety.is_unsafe(),
            None => false,
        };
        J::obj(vec![
            ("self_ty", self.ty(self_ty)),
            ("trait", tr.as_ref().map(|t| J::s(t.0.clone())).unwrap_or(J::Null)),
            ("trait_path", tr.as_ref().map(|t| J::s(t.1.clone())).unwrap_or(J::Null)),
            ("items", J::Arr(items)),
            ("derived", J::b(derived)),
            ("unsafe", J::b(is_unsafe)),
            ("predicates", J::Arr(preds)),
            ("span", self.span(tcx.def_span(did))),
        ])
    }

    fn export_fn(&mut self, did: DefId, kind: DefKind, uses_unsafe: &mut Vec<J>) -> Option<J> {
        let tcx = self.tcx;
        let ldid = did.expect_local();
        let has_body = tcx.hir_maybe_body_owned_by(ldid).is_some();
        let key = self.fn_key(did);
        let mut f: Vec<(&str, J)> = vec![
            ("key", J::s(key.clone())),
            ("path", J::s(self.path(did))),
            ("def_kind", J::s(format!("{:?}", kind))),
            ("vis", J::s(self.vis(did))),
            ("span", self.span(tcx.def_span(did))),
            ("has_body", J::b(has_body)),
        ];
        if !matches!(kind, DefKind::Closure) {
            let sig = tcx.fn_sig(did).instantiate_identity().skip_norm_wip();
            f.push(("unsafe", J::b(sig.safety().is_unsafe())));
            let inputs: Vec<J> = sig.inputs().skip_binder().iter().map(|t| self.ty(*t)).collect();
            f.push(("inputs", J::Arr(inputs)));
            let o = sig.output().skip_binder();
            f.push(("output", self.ty(o)));
            f.push(("attrs", self.attrs_of(did)));
            let generics: Vec<J> = tcx.generics_of(did).own_params.iter().map(|p| J::s(p.name.to_string())).collect();
            f.push(("generics", J::Arr(generics)));
            let preds: Vec<J> = tcx
                .predicates_of(did)
                .predicates
                .iter()
                .map(|(p, _)| J::s(np(|| format!("{}", p))))
                .collect();
            f.push(("predicates", J::Arr(preds)));
            let parent = tcx.parent(did);
            if let DefKind::Impl { .. } = tcx.def_kind(parent) {
                f.push(("impl_derived", J::b(tcx.is_automatically_derived(parent))));
                let self_ty = tcx.type_of(parent).instantiate_identity().skip_norm_wip();
                f.push(("impl_self_ty", self.ty(self_ty)));
                if let Some(tr) = tcx.impl_opt_trait_ref(parent) {
                    let tr = tr.instantiate_identity().skip_norm_wip();
                    f.push(("impl_trait", J::s(np(|| format!("{}", tr.print_only_trait_path())))));
                    f.push(("impl_trait_path", J::s(self.path(tr.def_id))));
                }
            }
        }
        if !has_body {
            return Some(J::obj(f));
        }
        // unsafe blocks in the THIR/HIR body: use the unsafety-checked result via HIR walk.
        let n_unsafe = count_unsafe_blocks(tcx, ldid);
        f.push(("unsafe_blocks", J::n(n_unsafe as i128)));
        if n_unsafe > 0 {
            uses_unsafe.push(J::obj(vec![("fn", J::s(key.clone())), ("count", J::n(n_unsafe as i128))]));
        }
        let body: &Body<'tcx> = tcx.optimized_mir(did);
        let env = TypingEnv::post_analysis(tcx, did);
        let m = self.export_body(body, env);
        f.push(("mir", m));
        let proms = tcx.promoted_mir(did);
        let mut pv = Vec::new();
        for pb in proms.iter() {
            pv.push(self.export_body(pb, env));
        }
        f.push(("promoted", J::Arr(pv)));
        Some(J::obj(f))
    }

    fn export_body(&mut self, body: &Body<'tcx>, env: TypingEnv<'tcx>) -> J {
        let mut locals = Vec::new();
        for (_l, d) in body.local_decls.iter_enumerated() {
            locals.push(J::obj(vec![("ty", self.ty(d.ty)), ("mut", J::b(d.mutability.is_mut()))]));
        }
        let mut dbg = Vec::new();
        for v in body.var_debug_info.iter() {
            let val = match &v.value {
                mir::VarDebugInfoContents::Place(p) => self.place(body, p),
                mir::VarDebugInfoContents::Const(_) => J::s("const"),
            };
            dbg.push(J::obj(vec![("name", J::s(v.name.to_string())), ("place", val)]));
        }
        let mut blocks = Vec::new();
        for (_bb, data) in body.basic_blocks.iter_enumerated() {
            let mut stmts = Vec::new();
            for st in data.statements.iter() {
                let sp = self.span(st.source_info.span);
                let j = match &st.kind {
                    StatementKind::Assign(b) => {
                        let (p, rv) = &**b;
                        J::obj(vec![
                            ("k", J::s("assign")),
                            ("place", self.place(body, p)),
                            ("rv", self.rvalue(body, rv, env)),
                            ("span", sp),
                        ])
                    }
                    StatementKind::SetDiscriminant { place, variant_index } => {
                        let pty = place.ty(&body.local_decls, self.tcx).ty;
                        let vname = match pty.kind() {
                            ty::Adt(def, _) => def.variant(*variant_index).name.to_string(),
                            _ => String::new(),
                        };
                        J::obj(vec![
                            ("k", J::s("setdisc")),
                            ("place", self.place(body, place)),
                            ("variant", J::n(variant_index.as_u32() as i128)),
                            ("vname", J::s(vname)),
                            ("span", sp),
                        ])
                    }
                    StatementKind::StorageLive(l) => J::obj(vec![("k", J::s("live")), ("l", J::n(l.as_u32() as i128))]),
                    StatementKind::StorageDead(l) => J::obj(vec![("k", J::s("dead")), ("l", J::n(l.as_u32() as i128))]),
                    StatementKind::Nop
                    | StatementKind::FakeRead(..)
                    | StatementKind::PlaceMention(..)
                    | StatementKind::AscribeUserType(..)
                    | StatementKind::Coverage(..)
                    | StatementKind::ConstEvalCounter
                    | StatementKind::BackwardIncompatibleDropHint { .. } => J::obj(vec![("k", J::s("nop"))]),
                    other => J::obj(vec![("k", J::s("other")), ("s", J::s(format!("{:?}", other))), ("span", sp)]),
                };
                stmts.push(j);
            }
            let term = data.terminator();
            let sp = self.span(term.source_info.span);
            let t = match &term.kind {
                TerminatorKind::Goto { target } => J::obj(vec![("k", J::s("goto")), ("t", J::n(target.as_u32() as i128))]),
                TerminatorKind::SwitchInt { discr, targets } => {
                    let mut arms = Vec::new();
                    for (v, t) in targets.iter() {
                        arms.push(J::Arr(vec![J::n(v as i128), J::n(t.as_u32() as i128)]));
                    }
                    let dty = discr.ty(&body.local_decls, self.tcx);
                    J::obj(vec![
                        ("k", J::s("switch")),
                        ("discr", self.operand(body, discr, env)),
                        ("ty", self.ty(dty)),
                        ("arms", J::Arr(arms)),
                        ("otherwise", J::n(targets.otherwise().as_u32() as i128)),
                        ("span", sp),
                    ])
                }
                TerminatorKind::Return => J::obj(vec![("k", J::s("return")), ("span", sp)]),
                TerminatorKind::Unreachable => J::obj(vec![("k", J::s("unreachable")), ("span", sp)]),
                TerminatorKind::UnwindResume => J::obj(vec![("k", J::s("resume"))]),
                TerminatorKind::UnwindTerminate(_) => J::obj(vec![("k", J::s("terminate"))]),
                TerminatorKind::Drop { place, target, unwind, .. } => J::obj(vec![
                    ("k", J::s("drop")),
                    ("place", self.place(body, place)),
                    ("ty", {
                        let t = place.ty(&body.local_decls, self.tcx).ty;
                        self.ty(t)
                    }),
                    ("t", J::n(target.as_u32() as i128)),
                    ("unwind", unwind_j(unwind)),
                    ("span", sp),
                ]),
                TerminatorKind::Call { func, args, destination, target, unwind, .. } => {
                    let argv: Vec<J> = args.iter().map(|a| self.operand(body, &a.node, env)).collect();
                    let callee = self.callee(body, func, env);
                    J::obj(vec![
                        ("k", J::s("call")),
                        ("callee", callee),
                        ("args", J::Arr(argv)),
                        ("dest", self.place(body, destination)),
                        ("t", target.map(|t| J::n(t.as_u32() as i128)).unwrap_or(J::Null)),
                        ("unwind", unwind_j(unwind)),
                        ("span", sp),
                    ])
                }
                TerminatorKind::Assert { cond, expected, msg, target, unwind } => {
                    let (mk, ops): (String, Vec<J>) = match &**msg {
                        mir::AssertKind::BoundsCheck { len, index } => (
                            "BoundsCheck".into(),
                            vec![self.operand(body, len, env), self.operand(body, index, env)],
                        ),
                        mir::AssertKind::Overflow(op, a, b) => (
                            format!("Overflow({:?})", op),
                            vec![self.operand(body, a, env), self.operand(body, b, env)],
                        ),
                        mir::AssertKind::OverflowNeg(a) => ("OverflowNeg".into(), vec![self.operand(body, a, env)]),
                        mir::AssertKind::DivisionByZero(a) => ("DivisionByZero".into(), vec![self.operand(body, a, env)]),
                        mir::AssertKind::RemainderByZero(a) => ("RemainderByZero".into(), vec![self.operand(body, a, env)]),
                        o => (format!("{:?}", o), vec![]),
                    };
                    J::obj(vec![
                        ("k", J::s("assert")),
                        ("cond", self.operand(body, cond, env)),
                        ("expected", J::b(*expected)),
                        ("msg", J::s(mk)),
                        ("ops", J::Arr(ops)),
                        ("t", J::n(target.as_u32() as i128)),
                        ("unwind", unwind_j(unwind)),
                        ("span", sp),
                    ])
                }
                TerminatorKind::FalseEdge { real_target, .. } => J::obj(vec![("k", J::s("goto")), ("t", J::n(real_target.as_u32() as i128))]),
                TerminatorKind::FalseUnwind { real_target, .. } => J::obj(vec![("k", J::s("goto")), ("t", J::n(real_target.as_u32() as i128))]),
                other => J::obj(vec![("k", J::s("other")), ("s", J::s(format!("{:?}", other))), ("span", sp)]),
            };
            blocks.push(J::obj(vec![("stmts", J::Arr(stmts)), ("term", t), ("cleanup", J::b(data.is_cleanup))]));
        }
        J::obj(vec![
            ("arg_count", J::n(body.arg_count as i128)),
            ("locals", J::Arr(locals)),
            ("debug", J::Arr(dbg)),
            ("blocks", J::Arr(blocks)),
        ])
    }

    fn place(&mut self, body: &Body<'tcx>, p: &Place<'tcx>) -> J {
        let tcx = self.tcx;
        let mut proj = Vec::new();
        let mut pty = mir::PlaceTy::from_ty(body.local_decls[p.local].ty);
        for elem in p.projection.iter() {
            let j = match elem {
                ProjectionElem::Deref => J::obj(vec![("k", J::s("deref"))]),
                ProjectionElem::Field(fi, fty) => {
                    let mut f = vec![("k", J::s("field")), ("i", J::n(fi.as_u32() as i128)), ("ty", self.ty(fty))];
                    match pty.ty.kind() {
                        ty::Adt(def, _) => {
                            let vi = pty.variant_index.unwrap_or(rustc_abi::FIRST_VARIANT);
                            let v = def.variant(vi);
                            f.push(("name", J::s(v.fields[fi].name.to_string())));
                            f.push(("adt", J::s(self.path(def.did()))));
                            f.push(("variant", J::s(v.name.to_string())));
                        }
                        ty::Closure(..) => {
                            f.push(("adt", J::s("{closure}")));
                        }
                        ty::Tuple(..) => {
                            f.push(("adt", J::s("{tuple}")));
                        }
                        _ => {}
                    }
                    J::obj(f)
                }
                ProjectionElem::Index(l) => J::obj(vec![("k", J::s("index")), ("l", J::n(l.as_u32() as i128))]),
                ProjectionElem::ConstantIndex { offset, min_length, from_end } => J::obj(vec![
                    ("k", J::s("constindex")),
                    ("offset", J::n(offset as i128)),
                    ("min_length", J::n(min_length as i128)),
                    ("from_end", J::b(from_end)),
                ]),
                ProjectionElem::Subslice { from, to, from_end } => J::obj(vec![
                    ("k", J::s("subslice")),
                    ("from", J::n(from as i128)),
                    ("to", J::n(to as i128)),
                    ("from_end", J::b(from_end)),
                ]),
                ProjectionElem::Downcast(_, vi) => {
                    let vname = match pty.ty.kind() {
                        ty::Adt(def, _) => def.variant(vi).name.to_string(),
                        _ => String::new(),
                    };
                    J::obj(vec![("k", J::s("downcast")), ("variant", J::n(vi.as_u32() as i128)), ("vname", J::s(vname))])
                }
                ProjectionElem::OpaqueCast(_) => J::obj(vec![("k", J::s("opaquecast"))]),
                ProjectionElem::UnwrapUnsafeBinder(_) => J::obj(vec![("k", J::s("unwrapbinder"))]),
            };
            proj.push(j);
            pty = pty.projection_ty(tcx, elem);
        }
        J::obj(vec![("l", J::n(p.local.as_u32() as i128)), ("p", J::Arr(proj))])
    }

    fn operand(&mut self, body: &Body<'tcx>, o: &Operand<'tcx>, env: TypingEnv<'tcx>) -> J {
        match o {
            Operand::Copy(p) => J::obj(vec![("k", J::s("copy")), ("place", self.place(body, p))]),
            Operand::Move(p) => J::obj(vec![("k", J::s("move")), ("place", self.place(body, p))]),
            Operand::Constant(c) => self.constant(&c.const_, env),
            Operand::RuntimeChecks(rc) => J::obj(vec![("k", J::s("runtime_checks")), ("s", J::s(format!("{:?}", rc)))]),
        }
    }

    fn constant(&mut self, c: &Const<'tcx>, env: TypingEnv<'tcx>) -> J {
        let tcx = self.tcx;
        let t = c.ty();
        let mut f: Vec<(&str, J)> = vec![("k", J::s("const")), ("ty", self.ty(t))];
        if let Const::Unevaluated(uv, _) = c {
            if let Some(p) = uv.promoted {
                f.push(("promoted", J::n(p.as_u32() as i128)));
                return J::obj(f);
            }
        }
        // function items
        if let ty::FnDef(did, args) = *t.kind() {
            f.push(("fn", self.resolve(did, args, env)));
            return J::obj(f);
        }
        if let Some(si) = c.try_eval_scalar_int(tcx, env) {
            match t.kind() {
                ty::Bool => {
                    f.push(("v", J::b(si.to_bits_unchecked() != 0)));
                }
                ty::Int(_) => {
                    let size = si.size();
                    f.push(("v", J::n(si.to_int(size))));
                }
                ty::Uint(_) | ty::Char => {
                    let v = si.to_bits_unchecked();
                    if v <= i128::MAX as u128 {
                        f.push(("v", J::n(v as i128)));
                    } else {
                        f.push(("vs", J::s(format!("{}", v))));
                    }
                }
                _ => {
                    f.push(("bits", J::s(format!("{}", si.to_bits_unchecked()))));
                }
            }
            return J::obj(f);
        }
        match c.eval(tcx, env, rustc_span::DUMMY_SP) {
            Ok(cv) => match cv {
                ConstValue::ZeroSized => f.push(("zst", J::b(true))),
                ConstValue::Slice { .. } | ConstValue::Indirect { .. } => {
                    let is_str = matches!(t.kind(), ty::Ref(_, inner, _) if inner.is_str());
                    if is_str {
                        if let Some(bytes) = cv.try_get_slice_bytes_for_diagnostics(tcx) {
                            f.push(("str", J::s(String::from_utf8_lossy(bytes).to_string())));
                        }
                    } else {
                        match cv {
                            ConstValue::Indirect { alloc_id, offset } => {
                                f.push(("mem", J::s(format!("{}+{}", self.render_alloc(alloc_id, 3), offset.bytes()))));
                            }
                            ConstValue::Slice { alloc_id, meta } => {
                                f.push(("mem", J::s(format!("{}[..{}]", self.render_alloc(alloc_id, 3), meta))));
                            }
                            _ => {}
                        }
                    }
                }
                ConstValue::Scalar(sc) => match sc {
                    mir::interpret::Scalar::Ptr(ptr, _) => {
                        let (prov, off) = ptr.prov_and_relative_offset();
                        f.push(("ptr", J::s(format!("{}+{}", self.render_alloc(prov.alloc_id(), 3), off.bytes()))));
                    }
                    other => f.push(("opaque", J::s(format!("{:?}", other)))),
                },
            },
            Err(_) => f.push(("uneval", J::s(np(|| format!("{}", c))))),
        }
        J::obj(f)
    }

    /// Content-addressed rendering of a global allocation (no alloc ids: they differ between builds).
    fn render_alloc(&self, id: mir::interpret::AllocId, depth: usize) -> String {
        use rustc_middle::mir::interpret::GlobalAlloc;
        let tcx = self.tcx;
        match tcx.try_get_global_alloc(id) {
            Some(GlobalAlloc::Memory(m)) => {
                let a = m.inner();
                let bytes = a.inspect_with_uninit_and_ptr_outside_interpreter(0..a.len());
                let mut s = String::from("mem{");
                for b in bytes {
                    s.push_str(&format!("{:02x}", b));
                }
                let ptrs = a.provenance().ptrs();
                if !ptrs.is_empty() {
                    s.push_str(";relocs=[");
                    for (off, prov) in ptrs.iter() {
                        if depth > 0 {
                            s.push_str(&format!("@{}:{},", off.bytes(), self.render_alloc(prov.alloc_id(), depth - 1)));
                        } else {
                            s.push_str(&format!("@{}:...,", off.bytes()));
                        }
                    }
                    s.push(']');
                }
                s.push('}');
                s
            }
            Some(GlobalAlloc::Function { instance }) => format!("fn{{{}}}", np(|| format!("{}", instance))),
            Some(GlobalAlloc::Static(d)) => format!("static{{{}}}", self.path(d)),
            Some(GlobalAlloc::VTable(t, _)) => format!("vtable{{{}}}", np(|| format!("{}", t))),
            Some(GlobalAlloc::TypeId { ty }) => format!("typeid{{{}}}", np(|| format!("{}", ty))),
            None => "dangling".to_string(),
        }
    }

    /// Resolve a `FnDef(def, args)` in the caller's typing environment.
    fn resolve(&mut self, did: DefId, args: GenericArgsRef<'tcx>, env: TypingEnv<'tcx>) -> J {
        let tcx = self.tcx;
        let mut f: Vec<(&str, J)> = vec![("decl", J::s(self.path(did)))];
        let a = self.gen_args(args);
        f.push(("decl_args", a));
        // trait method? record the trait
        if let Some(tr) = tcx.trait_of_assoc(did) {
            f.push(("trait", J::s(self.path(tr))));
            f.push(("method", J::s(tcx.item_name(did).to_string())));
        }
        match Instance::try_resolve(tcx, env, did, args) {
            Ok(Some(inst)) => {
                let (kind, idid): (&str, Option<DefId>) = match inst.def {
                    InstanceKind::Item(d) => ("item", Some(d)),
                    InstanceKind::Intrinsic(d) => ("intrinsic", Some(d)),
                    InstanceKind::VTableShim(d) => ("vtable_shim", Some(d)),
                    InstanceKind::ReifyShim(d, _) => ("reify_shim", Some(d)),
                    InstanceKind::FnPtrShim(d, _) => ("fnptr_shim", Some(d)),
                    InstanceKind::Virtual(d, _) => ("virtual", Some(d)),
                    InstanceKind::ClosureOnceShim { call_once, .. } => ("closure_once_shim", Some(call_once)),
                    InstanceKind::DropGlue(d, _) => ("drop_glue", Some(d)),
                    InstanceKind::CloneShim(d, _) => ("clone_shim", Some(d)),
                    _ => ("other", None),
                };
                f.push(("kind", J::s(kind)));
                if let Some(d) = idid {
                    if let DefKind::Ctor(..) = tcx.def_kind(d) {
                        // tuple struct / tuple variant constructor used as a function
                        let vdid = tcx.parent(d);
                        let (adt_did, variant) = match tcx.def_kind(vdid) {
                            DefKind::Variant => (tcx.parent(vdid), Some(vdid)),
                            _ => (vdid, None),
                        };
                        let def = tcx.adt_def(adt_did);
                        let v = match variant {
                            Some(vd) => def.variant_with_id(vd),
                            None => def.non_enum_variant(),
                        };
                        let names: Vec<J> = v.fields.iter().map(|fd| J::s(fd.name.to_string())).collect();
                        f.push(("ctor", J::obj(vec![
                            ("adt", J::s(self.path(adt_did))),
                            ("adt_kind", J::s(if def.is_enum() { "enum" } else { "struct" })),
                            ("variant", J::s(v.name.to_string())),
                            ("fields", J::Arr(names)),
                        ])));
                    }
                    f.push(("local", J::b(d.is_local())));
                    f.push(("key", J::s(self.fn_key(d))));
                    f.push(("path", J::s(self.path(d))));
                    if kind == "item" && !d.is_local() && std::env::var("MIRX_EXT").map(|v| v != "0").unwrap_or(true) {
                        let p = self.path(d);
                        if ext_wanted(&p) && tcx.is_mir_available(d) && self.ext_seen.len() < 400 {
                            let ek = np(|| format!("ext:{}<{}>", p, inst.args.iter().map(|a| format!("{}", a)).collect::<Vec<_>>().join(", ")));
                            f.push(("ext_body", J::s(ek.clone())));
                            if !self.ext_seen.contains_key(&ek) {
                                self.ext_seen.insert(ek.clone(), ());
                                self.ext_queue.push((d, inst.args, env, ek));
                            }
                        }
                    }
                    let ia = self.gen_args(inst.args);
                    f.push(("args", ia));
                    if let InstanceKind::FnPtrShim(_, t) = inst.def {
                        f.push(("shim_ty", self.ty(t)));
                    }
                    if let InstanceKind::CloneShim(_, t) = inst.def {
                        f.push(("shim_ty", self.ty(t)));
                    }
                    // closure invoked through Fn* trait: the receiver type names the closure
                    if let InstanceKind::ClosureOnceShim { .. } = inst.def {
                        if let Some(t0) = inst.args.types().next() {
                            f.push(("shim_ty", self.ty(t0)));
                        }
                    }
                }
            }
            Ok(None) => f.push(("kind", J::s("unresolved"))),
            Err(_) => f.push(("kind", J::s("error"))),
        }
        J::obj(f)
    }

    fn callee(&mut self, body: &Body<'tcx>, func: &Operand<'tcx>, env: TypingEnv<'tcx>) -> J {
        match func {
            Operand::Constant(c) => {
                let t = c.const_.ty();
                if let ty::FnDef(did, args) = *t.kind() {
                    let mut r = self.resolve(did, args, env);
                    if let J::Obj(ref mut v) = r {
                        v.push(("direct".to_string(), J::b(true)));
                    }
                    r
                } else {
                    J::obj(vec![("kind", J::s("const_fnptr")), ("op", self.constant(&c.const_, env))])
                }
            }
            o => J::obj(vec![("kind", J::s("indirect")), ("op", self.operand(body, o, env))]),
        }
    }

    fn rvalue(&mut self, body: &Body<'tcx>, rv: &Rvalue<'tcx>, env: TypingEnv<'tcx>) -> J {
        let tcx = self.tcx;
        match rv {
            Rvalue::Use(o, _) => J::obj(vec![("k", J::s("use")), ("op", self.operand(body, o, env))]),
            Rvalue::CopyForDeref(p) => J::obj(vec![
                ("k", J::s("use")),
                ("op", J::obj(vec![("k", J::s("copy")), ("place", self.place(body, p))])),
            ]),
            Rvalue::Ref(_, bk, p) => J::obj(vec![
                ("k", J::s("ref")),
                ("mut", J::b(matches!(bk, BorrowKind::Mut { .. }))),
                ("bk", J::s(format!("{:?}", bk))),
                ("place", self.place(body, p)),
            ]),
            Rvalue::RawPtr(k, p) => J::obj(vec![
                ("k", J::s("rawptr")),
                ("kind", J::s(format!("{:?}", k))),
                ("place", self.place(body, p)),
            ]),
            Rvalue::Cast(ck, o, t) => {
                let from = o.ty(&body.local_decls, tcx);
                let mut f = vec![
                    ("k", J::s("cast")),
                    ("ck", J::s(cast_name(ck))),
                    ("op", self.operand(body, o, env)),
                    ("from", self.ty(from)),
                    ("to", self.ty(*t)),
                ];
                // closure / fn item coerced to a fn pointer: record the target instance
                match *from.kind() {
                    ty::Closure(did, _args) => {
                        f.push(("target", J::obj(vec![("kind", J::s("item")), ("local", J::b(did.is_local())), ("key", J::s(self.fn_key(did)))])));
                    }
                    ty::FnDef(did, args) => {
                        let r = self.resolve(did, args, env);
                        f.push(("target", r));
                    }
                    _ => {}
                }
                J::obj(f)
            }
            Rvalue::BinaryOp(op, b) => {
                let (a, c) = &**b;
                let at = a.ty(&body.local_decls, tcx);
                J::obj(vec![
                    ("k", J::s("binop")),
                    ("op", J::s(binop_name(*op))),
                    ("a", self.operand(body, a, env)),
                    ("b", self.operand(body, c, env)),
                    ("ty", self.ty(at)),
                ])
            }
            Rvalue::UnaryOp(op, a) => {
                let at = a.ty(&body.local_decls, tcx);
                J::obj(vec![
                    ("k", J::s("unop")),
                    ("op", J::s(match op {
                        UnOp::Not => "Not",
                        UnOp::Neg => "Neg",
                        UnOp::PtrMetadata => "PtrMetadata",
                    })),
                    ("a", self.operand(body, a, env)),
                    ("ty", self.ty(at)),
                ])
            }
            Rvalue::Discriminant(p) => {
                let pty = p.ty(&body.local_decls, tcx).ty;
                let mut vars = Vec::new();
                if let ty::Adt(def, _) = pty.kind() {
                    if def.is_enum() {
                        for (vi, d) in def.discriminants(tcx) {
                            vars.push(J::Arr(vec![J::s(def.variant(vi).name.to_string()), J::n(d.val as i128)]));
                        }
                    }
                }
                J::obj(vec![
                    ("k", J::s("discr")),
                    ("place", self.place(body, p)),
                    ("ty", self.ty(pty)),
                    ("variants", J::Arr(vars)),
                ])
            }
            Rvalue::Aggregate(ak, ops) => {
                let opv: Vec<J> = ops.iter().map(|o| self.operand(body, o, env)).collect();
                let mut f = vec![("k", J::s("aggregate")), ("ops", J::Arr(opv))];
                match &**ak {
                    AggregateKind::Tuple => f.push(("ak", J::s("tuple"))),
                    AggregateKind::Array(_) => f.push(("ak", J::s("array"))),
                    AggregateKind::Adt(did, vi, args, _, active) => {
                        let def = tcx.adt_def(*did);
                        let v = def.variant(*vi);
                        f.push(("ak", J::s("adt")));
                        f.push(("adt", J::s(self.path(*did))));
                        f.push(("adt_kind", J::s(if def.is_enum() { "enum" } else if def.is_union() { "union" } else { "struct" })));
                        f.push(("variant", J::s(v.name.to_string())));
                        f.push(("vi", J::n(vi.as_u32() as i128)));
                        let names: Vec<J> = v.fields.iter().map(|fd| J::s(fd.name.to_string())).collect();
                        f.push(("fields", J::Arr(names)));
                        let a = self.gen_args(args);
                        f.push(("args", a));
                        if let Some(a) = active {
                            f.push(("active_field", J::n(a.as_u32() as i128)));
                        }
                    }
                    AggregateKind::Closure(did, _) => {
                        f.push(("ak", J::s("closure")));
                        f.push(("key", J::s(self.fn_key(*did))));
                    }
                    AggregateKind::RawPtr(..) => f.push(("ak", J::s("rawptr"))),
                    _ => f.push(("ak", J::s("other"))),
                }
                J::obj(f)
            }
            Rvalue::Repeat(o, n) => J::obj(vec![
                ("k", J::s("repeat")),
                ("op", self.operand(body, o, env)),
                ("n", J::s(format!("{}", n))),
            ]),
            Rvalue::ThreadLocalRef(d) => J::obj(vec![("k", J::s("threadlocal")), ("path", J::s(self.path(*d)))]),
            Rvalue::WrapUnsafeBinder(..) => J::obj(vec![("k", J::s("other")), ("s", J::s("WrapUnsafeBinder"))]),
        }
    }
}

fn unwind_j(u: &mir::UnwindAction) -> J {
    match u {
        mir::UnwindAction::Continue => J::s("continue"),
        mir::UnwindAction::Unreachable => J::s("unreachable"),
        mir::UnwindAction::Terminate(_) => J::s("terminate"),
        mir::UnwindAction::Cleanup(b) => J::n(b.as_u32() as i128),
    }
}

fn cast_name(ck: &CastKind) -> String {
    format!("{:?}", ck)
}

fn binop_name(op: BinOp) -> &'static str {
    match op {
        BinOp::Add => "Add",
        BinOp::AddUnchecked => "AddUnchecked",
        BinOp::AddWithOverflow => "AddWithOverflow",
        BinOp::Sub => "Sub",
        BinOp::SubUnchecked => "SubUnchecked",
        BinOp::SubWithOverflow => "SubWithOverflow",
        BinOp::Mul => "Mul",
        BinOp::MulUnchecked => "MulUnchecked",
        BinOp::MulWithOverflow => "MulWithOverflow",
        BinOp::Div => "Div",
        BinOp::Rem => "Rem",
        BinOp::BitXor => "BitXor",
        BinOp::BitAnd => "BitAnd",
        BinOp::BitOr => "BitOr",
        BinOp::Shl => "Shl",
        BinOp::ShlUnchecked => "ShlUnchecked",
        BinOp::Shr => "Shr",
        BinOp::ShrUnchecked => "ShrUnchecked",
        BinOp::Eq => "Eq",
        BinOp::Lt => "Lt",
        BinOp::Le => "Le",
        BinOp::Ne => "Ne",
        BinOp::Ge => "Ge",
        BinOp::Gt => "Gt",
        BinOp::Cmp => "Cmp",
        BinOp::Offset => "Offset",
    }
}

/// Number of `unsafe { .. }` blocks written by the user in the HIR body of `ldid`.
fn count_unsafe_blocks<'tcx>(tcx: TyCtxt<'tcx>, ldid: LocalDefId) -> usize {
    use rustc_hir::intravisit::{self, Visitor};
    struct V {
        n: usize,
    }
    impl<'v> Visitor<'v> for V {
        fn visit_block(&mut self, b: &'v rustc_hir::Block<'v>) {
            // compiler-generated unsafe blocks (format_args! lowering, builtin derives) are
            // `UnsafeSource::CompilerGenerated`; only user-written ones count.
            if let rustc_hir::BlockCheckMode::UnsafeBlock(rustc_hir::UnsafeSource::UserProvided) = b.rules {
                if !b.span.allows_unsafe() {
                    self.n += 1;
                }
            }
            intravisit::walk_block(self, b);
        }
    }
    let mut v = V { n: 0 };
    if let Some(body) = tcx.hir_maybe_body_owned_by(ldid) {
        v.visit_expr(body.value);
    }
    v.n
}
