#!/bin/bash
# usage: run_mirx.sh <outdir> <profile: dev|rel> [cargo feature args...]
# Exports facts for /repo's current working tree into <outdir>. Fresh target dir, removed afterwards.
set -euo pipefail
OUT="$1"; PROFILE="$2"; shift 2
REPO="${VERIF_REPO:-/repo}"
DRV="$(dirname "$(readlink -f "$0")")/mirx/target/release/mirx"
[ -x "$DRV" ] || { echo "mirx driver not built: run setup" >&2; exit 3; }
mkdir -p "$OUT"
T="$(mktemp -d /tmp/mirx-target.XXXXXX)"
trap 'rm -rf "$T"' EXIT
PF=""
[ "$PROFILE" = "rel" ] && PF="--release"
SYSROOT="$(rustc +nightly --print sysroot)"
cd "$REPO"
LD_LIBRARY_PATH="$SYSROOT/lib" MIRX_OUT="$OUT" CARGO_NET_OFFLINE=true \
RUSTFLAGS="-Zmir-opt-level=0 -Awarnings" RUSTC_WORKSPACE_WRAPPER="$DRV" CARGO_TARGET_DIR="$T" \
  cargo +nightly check --offline -q -p "${MIRX_PKG:-indextree}" $PF "$@" >"$OUT/cargo.log" 2>&1 || { cat "$OUT/cargo.log" >&2; exit 4; }
[ -s "$OUT/${MIRX_MAIN:-indextree}.json" ] || { echo "mirx: no facts written" >&2; cat "$OUT/cargo.log" >&2; exit 5; }
