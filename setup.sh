#!/bin/bash
# MANIFEST.setup_cmd: build the framework from files on disk only (offline).
set -euo pipefail
cd "$(dirname "$(readlink -f "$0")")"
export CARGO_NET_OFFLINE=true
( cd engines/mirx && cargo build --release --offline 2>&1 | tail -3 )
test -x engines/mirx/target/release/mirx
python3 -m compileall -q vlib props tools check >/dev/null
mkdir -p .cache out evidence
echo "setup ok"
